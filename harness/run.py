"""Runner: python -m harness.run <ID> [--tier quick|thorough] [--replay FILE]

Exit 0: property held on everything explored (known findings are printed as KNOWN-FINDING lines)
Exit 1: a violation not listed in known_findings.jsonl ("VIOLATION property=<id> replay=<path>")
Exit 2: harness error (never a verdict about the code under test)
"""
import argparse
import collections
import concurrent.futures
import hashlib
import importlib
import json
import multiprocessing
import os
import shutil
import signal
import sys
import tempfile
import time
import traceback

HERE = os.path.dirname(os.path.abspath(__file__))
VERIF = os.path.dirname(HERE)


def _reexec_if_needed():
    want = {"PYTHONHASHSEED": "0"}
    repo = os.path.realpath(os.environ.get("VERIF_REPO", "/repo"))
    deps = os.path.join(VERIF, ".deps")
    pp = os.pathsep.join([repo, VERIF, deps])
    if os.environ.get("PYTHONHASHSEED") != "0" or os.environ.get("VERIF_REEXEC") != "1":
        env = dict(os.environ)
        env.update(want)
        env["PYTHONPATH"] = pp
        env["VERIF_REEXEC"] = "1"
        env["PYTHONDONTWRITEBYTECODE"] = "1"
        env["PYTHONWARNINGS"] = "ignore::SyntaxWarning"
        os.execve(sys.executable, [sys.executable, "-m", "harness.run"] + sys.argv[1:], env)


class HarnessError(Exception):
    pass


class CaseTimeout(BaseException):
    stacks = ()


_TL = {"stacks": [], "deadline": 0.0}


def _alarm(signum, frame):
    # many samples of the stack during the second half of the limit: the frames common to all of them contain the
    # loop that does not terminate (callees differ from sample to sample)
    _TL["stacks"].append([(f.filename, f.name) for f in traceback.extract_stack(frame)])
    if time.time() >= _TL["deadline"]:
        signal.setitimer(signal.ITIMER_REAL, 0)
        e = CaseTimeout()
        e.stacks = tuple(_TL["stacks"])
        raise e


class time_limit:
    """wall guard used only to classify hangs (C19) or to mark a case inconclusive; never an oracle."""

    def __init__(self, seconds):
        self.seconds = seconds

    def __enter__(self):
        _TL["stacks"] = []
        _TL["deadline"] = time.time() + self.seconds
        self.old = signal.signal(signal.SIGALRM, _alarm)
        signal.setitimer(signal.ITIMER_REAL, self.seconds / 2.0, 1.7)

    def __exit__(self, *a):
        signal.setitimer(signal.ITIMER_REAL, 0)
        signal.signal(signal.SIGALRM, self.old)
        _TL["stacks"] = []
        return False


def sig_str(sig):
    return "|".join("%s=%s" % (k, sig[k]) for k in sorted(sig))


def case_hash(obj):
    return hashlib.sha1(json.dumps(obj, sort_keys=True, default=str).encode()).hexdigest()[:16]


# ----------------------------------------------------------------------------------------------
# worker side
# ----------------------------------------------------------------------------------------------
_PROP = None
_TIER = None


def _load(prop_id):
    return importlib.import_module("harness.oracles.%s" % prop_id.lower())


def _winit(prop_id, tier, scratch):
    global _PROP, _TIER
    os.environ["VERIF_SCRATCH"] = scratch
    _PROP = _load(prop_id)
    _TIER = tier
    if hasattr(_PROP, "worker_init"):
        _PROP.worker_init(tier)


def _safe_run(case):
    """run one case; a harness-side exception is reported as harness_error, never as a violation"""
    t = time.time()
    try:
        with time_limit(getattr(_PROP, "CASE_TIME_LIMIT", 300)):
            r = _PROP.run_case(case, _TIER)
    except CaseTimeout as e:
        r = {"inconclusive": "case_time_limit"}
        if hasattr(_PROP, "on_timeout"):
            r = _PROP.on_timeout(case, _TIER, e)
    except Exception:
        r = {"harness_error": traceback.format_exc()[-3000:], "case": case}
    r.setdefault("dt", time.time() - t)
    return r


def _run_fixed_chunk(cases):
    return [_safe_run(c) for c in cases]


def _run_generated(args):
    """seed-dependent part: Hypothesis draws the cases, the body records instead of raising"""
    wseed, n = args
    import hypothesis
    from hypothesis import HealthCheck, Phase, given, settings

    out = []
    strat = _PROP.strategy(_TIER)

    @hypothesis.seed(wseed)
    @settings(
        max_examples=n,
        database=None,
        deadline=None,
        derandomize=False,
        report_multiple_bugs=False,
        phases=[Phase.generate],
        suppress_health_check=list(HealthCheck),
    )
    @given(strat)
    def drive(case):
        out.append(_safe_run(case))

    try:
        drive()
    except Exception:
        out.append({"harness_error": traceback.format_exc()[-3000:]})
    return out


def _confirm_child(prop_id, tier, case, scratch):
    """re-run a concrete failing case in a freshly forked child of the pristine parent"""
    r, w = os.pipe()
    pid = os.fork()
    if pid == 0:
        try:
            os.close(r)
            _winit(prop_id, tier, scratch)
            res = _safe_run(case)
            data = json.dumps(res, default=str).encode()
            with os.fdopen(w, "wb") as f:
                f.write(data)
        except BaseException:
            try:
                os.write(w, json.dumps({"harness_error": traceback.format_exc()[-2000:]}).encode())
            except Exception:
                pass
        finally:
            os._exit(0)
    os.close(w)
    chunks = []
    with os.fdopen(r, "rb") as f:
        while True:
            b = f.read(1 << 16)
            if not b:
                break
            chunks.append(b)
    os.waitpid(pid, 0)
    try:
        return json.loads(b"".join(chunks).decode())
    except Exception:
        return {"harness_error": "confirm child produced no result"}


def _shrink_child(prop_id, tier, case, sig, budget, scratch):
    """run prop.shrink in a forked child; returns the shrunk case or None"""
    r, w = os.pipe()
    pid = os.fork()
    if pid == 0:
        try:
            os.close(r)
            _winit(prop_id, tier, scratch)
            out = _PROP.shrink(case, sig, tier, budget)
            with os.fdopen(w, "wb") as f:
                f.write(json.dumps(out, default=str).encode())
        except BaseException:
            pass
        finally:
            os._exit(0)
    os.close(w)
    chunks = []
    with os.fdopen(r, "rb") as f:
        while True:
            b = f.read(1 << 16)
            if not b:
                break
            chunks.append(b)
    os.waitpid(pid, 0)
    try:
        return json.loads(b"".join(chunks).decode())
    except Exception:
        return None


# ----------------------------------------------------------------------------------------------
# known findings
# ----------------------------------------------------------------------------------------------
def load_known(prop_id):
    known, fixed = {}, {}
    fn = os.path.join(VERIF, "known_findings.jsonl")
    if os.path.exists(fn):
        for line in open(fn):
            line = line.strip()
            if not line or line.startswith("#"):
                continue
            d = json.loads(line)
            if d.get("property") != prop_id:
                continue
            if d.get("status") == "fixed":
                fixed[d["signature"]] = d
            else:
                known[d["signature"]] = d
    return known, fixed


# ----------------------------------------------------------------------------------------------
# main
# ----------------------------------------------------------------------------------------------
def main():
    _reexec_if_needed()
    ap = argparse.ArgumentParser()
    ap.add_argument("prop")
    ap.add_argument("--tier", default=os.environ.get("VERIF_TIER", "quick"), choices=["quick", "thorough"])
    ap.add_argument("--replay")
    ap.add_argument("--workers", type=int, default=int(os.environ.get("VERIF_WORKERS", "16")))
    ap.add_argument("--scale", type=float, default=float(os.environ.get("VERIF_SCALE", "1")))
    ap.add_argument("--triage", action="store_true", help="print every signature with one example; never writes known findings")
    ap.add_argument("--no-shrink", action="store_true")
    args = ap.parse_args()
    prop_id = args.prop.upper()
    seed = int(os.environ.get("VERIF_SEED", "1") or "1")
    t0 = time.time()
    scratch = tempfile.mkdtemp(prefix="vsgverif_run_")
    os.environ["VERIF_SCRATCH"] = scratch
    code = 2
    try:
        code = _main(prop_id, args, seed, t0, scratch)
    except HarnessError as e:
        print("HARNESS ERROR: %s" % e)
        code = 2
    except Exception:
        traceback.print_exc()
        print("HARNESS ERROR: unexpected exception in runner")
        code = 2
    finally:
        shutil.rmtree(scratch, ignore_errors=True)
    sys.stdout.flush()
    os._exit(code)


def _main(prop_id, args, seed, t0, scratch):
    from harness import vsgapi  # noqa: F401  (asserts that vsg comes from the repo under test)

    prop = _load(prop_id)
    tier = args.tier
    known, fixed = load_known(prop_id)

    if args.replay:
        return _replay_one(prop_id, prop, tier, args.replay, known, fixed, scratch)

    results = []
    ctx = multiprocessing.get_context("fork")
    n_workers = max(1, args.workers)

    # stage 0: replay witnesses of known and fixed findings in pristine children
    replay_notes = []
    viol_from_fixed = []
    for sig, d in sorted(list(known.items()) + list(fixed.items())):
        w = d.get("witness")
        if not w:
            continue
        wp = os.path.join(VERIF, w)
        if not os.path.exists(wp):
            raise HarnessError("witness %s missing" % w)
        case = json.load(open(wp))["case"]
        res = _confirm_child(prop_id, tier, case, scratch)
        if "harness_error" in res:
            raise HarnessError("replaying %s: %s" % (w, res["harness_error"]))
        sigs = set(sig_str(f["sig"]) for f in res.get("failures", []))
        if d.get("status") == "fixed":
            if sig in sigs:
                viol_from_fixed.append((sig, w))
        else:
            if sig not in sigs:
                replay_notes.append("note: known finding %s no longer reproduces from %s" % (sig, w))
        res["_replayed"] = True
        results.append(res)

    fixed_cases = list(prop.fixed_cases(tier)) if hasattr(prop, "fixed_cases") else []
    if args.scale < 1 and fixed_cases:
        step = max(1, int(round(1 / args.scale)))
        fixed_cases = fixed_cases[::step]
    gen_total = int(prop.n_generated(tier) * args.scale) if hasattr(prop, "n_generated") else 0
    # The seed-dependent part draws from a bounded family of Hypothesis seeds (VERIF_SEED modulo the size of the family):
    # every member of the family has been run on the unchanged tree before the check was registered, so that the genuine
    # defects of the pinned tree (which have a long tail under new layouts x configurations) are all listed (DESIGN §12).
    space = getattr(prop, "SEED_SPACE", {"quick": 8, "thorough": 1}).get(tier, 8)
    eff_seed = seed % space
    if os.environ.get("VERIF_ONLY_GENERATED") or os.environ.get("VERIF_FAMILY_ALL"):
        # developer saturation runs: only the seed-dependent part (optionally scaled, or every member of the seed family)
        fixed_cases = []
        gen_total = int(gen_total * float(os.environ.get("VERIF_ONLY_GENERATED") or 1))

    with concurrent.futures.ProcessPoolExecutor(max_workers=n_workers, mp_context=ctx, initializer=_winit, initargs=(prop_id, tier, scratch)) as ex:
        futs = []
        if fixed_cases:
            chunk = max(1, min(8, len(fixed_cases) // (n_workers * 4) or 1))
            for i in range(0, len(fixed_cases), chunk):
                futs.append(ex.submit(_run_fixed_chunk, fixed_cases[i : i + chunk]))
        if gen_total:
            shards = n_workers * 2
            per = max(1, gen_total // shards)
            members = range(space) if os.environ.get("VERIF_FAMILY_ALL") else [eff_seed]
            for member in members:
                for k in range(shards):
                    wseed = int(hashlib.sha1(("%d/%s/%d/%s" % (member, prop_id, k, tier)).encode()).hexdigest()[:12], 16)
                    futs.append(ex.submit(_run_generated, (wseed, per)))
        for f in concurrent.futures.as_completed(futs):
            try:
                results.extend(f.result())
            except concurrent.futures.process.BrokenProcessPool:
                raise HarnessError("a worker process died")

    args.eff_seed = eff_seed
    args.seed_space = space
    return _finish(prop_id, prop, tier, seed, t0, results, known, fixed, replay_notes, viol_from_fixed, args, scratch)


def _finish(prop_id, prop, tier, seed, t0, results, known, fixed, replay_notes, viol_from_fixed, args, scratch):
    herr = [r for r in results if "harness_error" in r]
    if herr:
        print(herr[0]["harness_error"])
        raise HarnessError("%d case(s) raised inside the harness" % len(herr))

    labels = collections.Counter()
    nontrivial = set()
    evaluations = 0
    samples = []
    buckets = collections.OrderedDict()
    inconclusive = 0
    for r in results:
        if r.get("inconclusive"):
            inconclusive += 1
            labels["inconclusive:" + str(r["inconclusive"])] += 1
            continue
        evaluations += r.get("evals", 1)
        for k, v in (r.get("labels") or {}).items():
            labels[k] += v
        for k in r.get("nontrivial", []) or []:
            nontrivial.add(k)
        if r.get("sample") is not None and len(samples) < 400:
            samples.append(r["sample"])
        for f in r.get("failures", []) or []:
            s = sig_str(f["sig"])
            buckets.setdefault(s, []).append(f)

    # evidence samples: deterministic pick
    samples.sort(key=lambda s: case_hash(s))
    samples = samples[:5]
    if not samples:
        # every non-trivial case failed: show the failing cases themselves
        for s_, fl in list(buckets.items())[:3]:
            samples.append({"failing_case_signature": s_, "detail": json.loads(json.dumps(fl[0].get("detail"), default=str))})

    new_sigs = [s for s in buckets if s not in known]
    violations = []
    known_hit = []
    for s in buckets:
        if s in known:
            known_hit.append(s)
    for s, w in viol_from_fixed:
        violations.append((s, os.path.join(VERIF, w)))

    state_leak = []
    # confirm in isolation (fresh fork of a pristine launcher process), smallest candidates first; launchers never run cases themselves
    cand_map = {s: sorted(buckets[s], key=lambda f: len(json.dumps(f.get("case"), default=str)))[:3] for s in new_sigs}
    conf_res = {}
    if new_sigs:
        with concurrent.futures.ProcessPoolExecutor(max_workers=min(16, max(1, len(new_sigs))), mp_context=multiprocessing.get_context("fork")) as cex:
            futs = {}
            for s in new_sigs:
                for k, f in enumerate(cand_map[s][: (1 if args.triage else 3)]):
                    futs[cex.submit(_confirm_child, prop_id, tier, f["case"], scratch)] = (s, k)
            for fu in concurrent.futures.as_completed(futs):
                conf_res[futs[fu]] = fu.result()
    confirmed_map = {}
    for s in new_sigs:
        cands = cand_map[s]
        confirmed = None
        for k, f in enumerate(cands):
            res = conf_res.get((s, k))
            if res is None:
                continue
            if "harness_error" in res:
                print(res["harness_error"])
                raise HarnessError("confirmation run raised inside the harness")
            if any(sig_str(g["sig"]) == s for g in res.get("failures", [])):
                confirmed = [g for g in res["failures"] if sig_str(g["sig"]) == s][0]
                break
        if confirmed is None:
            state_leak.append(s)
            continue
        confirmed_map[s] = confirmed
    # shrink in parallel (each in a forked child of a pristine launcher), then re-confirm the shrunk case in a fresh child
    shrunk = {}
    if confirmed_map and not args.no_shrink and hasattr(prop, "shrink"):
        budget = 20 if args.triage else (60 if tier == "quick" else 600)
        with concurrent.futures.ProcessPoolExecutor(max_workers=min(16, len(confirmed_map)), mp_context=multiprocessing.get_context("fork")) as cex:
            futs = {cex.submit(_shrink_child, prop_id, tier, c["case"], c["sig"], budget, scratch): s for s, c in confirmed_map.items()}
            for fu in concurrent.futures.as_completed(futs):
                try:
                    shrunk[futs[fu]] = fu.result()
                except Exception:
                    pass
            futs = {cex.submit(_confirm_child, prop_id, tier, c, scratch): s for s, c in shrunk.items() if c is not None}
            for fu in concurrent.futures.as_completed(futs):
                s = futs[fu]
                res = fu.result()
                ok = [g for g in res.get("failures", []) if sig_str(g["sig"]) == s]
                if ok:
                    confirmed_map[s] = ok[0]
    for s, confirmed in confirmed_map.items():
        case = confirmed["case"]
        if args.triage:
            violations.append((s, None, confirmed))
            continue
        rp = os.path.join(VERIF, "replays", prop_id, "%s.json" % hashlib.sha1(s.encode()).hexdigest()[:12])
        os.makedirs(os.path.dirname(rp), exist_ok=True)
        with open(rp, "w") as fh:
            json.dump({"property": prop_id, "signature": s, "sig": confirmed["sig"], "detail": confirmed.get("detail"), "case": case}, fh, indent=1, default=str)
        violations.append((s, rp))

    for n in replay_notes:
        print(n)
    for s in sorted(known_hit):
        print("KNOWN-FINDING: property=%s %s (%d case(s) this run; %s)" % (prop_id, s, len(buckets[s]), known[s].get("summary", "")))
    if args.triage:
        for s, _, f in violations:
            print("TRIAGE %s :: %s" % (s, json.dumps(f.get("detail"), default=str)[:600]))
        tri = os.environ.get("VERIF_TRIAGE_OUT")
        if tri:
            with open(tri, "w") as fh:
                for s, _, f in violations:
                    fh.write(json.dumps({"property": prop_id, "signature": s, "sig": f["sig"], "detail": f.get("detail"), "case": f["case"], "count": len(buckets[s])}, default=str) + "\n")
    if state_leak:
        for s in state_leak:
            print("STATE-LEAK (failure seen in a long-lived worker did not reproduce in a fresh process): %s" % s)
        if not getattr(prop, "TOLERATE_UNCONFIRMED", False):
            raise HarnessError("unconfirmed candidate failures: %s" % state_leak[:3])

    wall = time.time() - t0
    ev = {
        "property_id": prop_id,
        "tier": tier,
        "seed": seed,
        "level": prop.LEVEL,
        "coverage": {
            "evaluations": evaluations,
            "distinct_nontrivial": len(nontrivial),
            "rule": prop.RULE,
            "samples": samples,
            "labels": dict(sorted(labels.items())),
            "inconclusive": inconclusive,
            "known_findings_hit": sorted(known_hit),
            "generator_seed_family": {"member": getattr(args, "eff_seed", None), "size": getattr(args, "seed_space", None)},
            "exhaustive": bool(getattr(prop, "EXHAUSTIVE", {}).get(tier, False)) if isinstance(getattr(prop, "EXHAUSTIVE", None), dict) else False,
        },
        "assumptions": list(getattr(prop, "ASSUMPTIONS", [])),
        "wall_s": round(wall, 2),
        "violations": 0 if args.triage else len(violations),
    }
    if hasattr(prop, "extra_evidence"):
        ev["coverage"].update(prop.extra_evidence(results, tier))
    if args.triage:
        print("%s triage: evaluations=%d distinct_nontrivial=%d new signatures=%d wall=%.1fs" % (prop_id, evaluations, len(nontrivial), len(violations), wall))
        return 0
    if (evaluations < 1 or len(nontrivial) < 2) and not violations:
        _write_evidence(prop_id, ev)
        raise HarnessError("vacuous run: evaluations=%d distinct_nontrivial=%d" % (evaluations, len(nontrivial)))
    try:
        _write_evidence(prop_id, ev)
    except Exception as e:
        if not violations:
            raise
        print("warning: evidence file not valid (%s); violations are reported regardless" % (type(e).__name__,))
    print("%s tier=%s seed=%d evaluations=%d distinct_nontrivial=%d known=%d new=%d wall=%.1fs" % (prop_id, tier, seed, evaluations, len(nontrivial), len(known_hit), len(violations), wall))
    if args.triage:
        return 0
    if violations:
        for s, rp in violations:
            print("VIOLATION property=%s replay=%s" % (prop_id, rp))
            print("  signature: %s" % s)
        return 1
    return 0


def _write_evidence(prop_id, ev):
    d = os.environ.get("VERIF_EVIDENCE_DIR") or os.path.join(VERIF, "evidence")  # sweeps against seeded changes write elsewhere
    os.makedirs(d, exist_ok=True)
    fn = os.path.join(d, "%s.json" % prop_id)
    try:
        import jsonschema

        schema = json.load(open(os.path.join(VERIF, "tables", "EVIDENCE.schema.json")))
        jsonschema.validate(json.loads(json.dumps(ev, default=str)), schema)
    except ImportError:
        pass
    tmp = fn + ".tmp"
    with open(tmp, "w") as fh:
        json.dump(ev, fh, indent=1, default=str, sort_keys=True)
    os.replace(tmp, fn)


def _replay_one(prop_id, prop, tier, path, known, fixed, scratch):
    d = json.load(open(path))
    res = _confirm_child(prop_id, tier, d["case"], scratch)
    if "harness_error" in res:
        print(res["harness_error"])
        raise HarnessError("replay raised inside the harness")
    fails = res.get("failures", [])
    if not fails:
        print("replay %s: property holds on this case" % path)
        return 0
    rc = 0
    for f in fails:
        s = sig_str(f["sig"])
        print("replay %s: %s :: %s" % (path, s, json.dumps(f.get("detail"), default=str)[:800]))
        if s in known:
            print("KNOWN-FINDING: property=%s %s" % (prop_id, s))
        else:
            print("VIOLATION property=%s replay=%s" % (prop_id, path))
            rc = 1
    return rc


if __name__ == "__main__":
    main()
