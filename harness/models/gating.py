"""Reference model of phase gating (docs/phases.rst, docs/usage.rst)."""


def gated(all_violations, phase_of, is_error, skip=()):
    """all_violations: list of (rule, line, solution) from an all-phases run. phase_of/is_error: dict rule -> phase / bool.
    returns the sub-list a run without --all_phases must report: every phase up to and including the first one that has an
    error-severity violation (all phases if none)."""
    by_phase = {}
    for v in all_violations:
        by_phase.setdefault(phase_of[v[0]], []).append(v)
    stop = None
    for ph in range(1, 8):
        if ph in skip:
            continue
        if any(is_error[v[0]] for v in by_phase.get(ph, [])):
            stop = ph
            break
    out = []
    for ph in range(1, 8):
        if ph in skip:
            continue
        if stop is not None and ph > stop:
            break
        out.extend(by_phase.get(ph, []))
    return sorted(out, key=lambda t: (t[0], t[1], str(t[2]))), stop
