"""Reference model of configuration precedence (docs/configuring_overview.rst "Rule Configuration Priorities").

levels, lowest to highest priority: style default < [rule][global] < [rule][group][g] (g a group of the rule) < [rule][<id>]
< per-file ([file_list][file][rule][<id>] and [file_rules][file][rule][<id>]).  Several -c files: a later file overrides an earlier one.
"""


def effective(rule_id, attr, rule_groups, rule_configurable, default, files, per_file_for_this_file):
    """files: list of configuration dicts in command-line order (the generator lets every level entry of a file set only `attr`, so
    'replace' and 'merge' readings of the multi-file merge coincide).  returns the value the documentation promises."""
    val = default
    g_val = None
    have = {"global": None, "group": None, "rule": None}
    for conf in files:
        r = conf.get("rule", {})
        if "global" in r and attr in r["global"]:
            have["global"] = r["global"][attr]
        if "group" in r:
            # a later file's group section replaces the earlier one
            gv = None
            for g, d in r["group"].items():
                if g in rule_groups and attr in d:
                    gv = d[attr]
            have["group"] = gv if gv is not None or "group" in r else have["group"]
        if rule_id in r and attr in r[rule_id]:
            have["rule"] = r[rule_id][attr]
    if have["global"] is not None and attr in rule_configurable:
        val = have["global"]
    if have["group"] is not None:
        val = have["group"]
    if have["rule"] is not None:
        val = have["rule"]
    pf = per_file_for_this_file
    if pf is not None and rule_id in pf and attr in pf[rule_id]:
        val = pf[rule_id][attr]
    return val
