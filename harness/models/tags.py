"""Reference model of VSG code tags, written from docs/code_tags.rst (not from vsg/vhdlFile/code_tags.py).

build(lines, tags, word) inserts own-line tag comments; line_status(n_lines_out, tag_lines) gives, for every output line,
the set of suppressed rule ids (or ALL) and whether the line is a tag line itself (boundary: only part of its tokens carry the tag).
"""

ALL = "*"


def build(lines, tags, word="vsg"):
    """tags: list of dicts {at: index into lines (insert before that line; len(lines) = append), kind: off|on|next, ids: [...], remark: str|None, sp: int}
    returns (out_lines, tag_events) where tag_events = list of (out_line_number_1_based, tag)"""
    by = {}
    for t in tags:
        by.setdefault(t["at"], []).append(t)
    out = []
    ev = []
    for k in range(len(lines) + 1):
        for t in by.get(k, []):
            name = {"off": "%s_off", "on": "%s_on", "next": "%s_disable_next_line"}[t["kind"]] % word
            s = "-- " + name
            if t["ids"]:
                s += " " * t.get("sp", 1) + (" " * t.get("sp", 1)).join(t["ids"])
            if t.get("remark"):
                s += " : " + t["remark"]
            out.append(" " * t.get("indent", 0) + s)
            ev.append((len(out), t))
        if k < len(lines):
            out.append(lines[k])
    return out, ev


def line_status(n_out, events):
    """returns (suppressed[line] -> frozenset of ids or contains ALL, is_tag_line[line]) for 1-based lines"""
    at = {ln: t for ln, t in events}
    off_all = False
    off_ids = set()
    nxt = set()
    carry = False  # next-line ids apply to the following line
    sup = [None] * (n_out + 2)
    tagline = [False] * (n_out + 2)
    for ln in range(1, n_out + 1):
        t = at.get(ln)
        if t is not None:
            tagline[ln] = True
            if t["kind"] == "off":
                if t["ids"]:
                    off_ids |= set(t["ids"])
                else:
                    off_all = True
            elif t["kind"] == "on":
                if t["ids"]:
                    off_ids -= set(t["ids"])
                else:
                    off_all = False
                    off_ids = set()
                    nxt = set()
            elif t["kind"] == "next":
                nxt |= set(t["ids"])
            cur = set(off_ids) | set(nxt)
            if off_all:
                cur.add(ALL)
            sup[ln] = frozenset(cur)
            continue
        cur = set(off_ids) | set(nxt)
        if off_all:
            cur.add(ALL)
        sup[ln] = frozenset(cur)
        nxt = set()
    return sup, tagline


def suppressed(sup_line, rule_id):
    return ALL in sup_line or rule_id in sup_line
