"""atheris (libFuzzer) target for C19b: structured mutations of valid seed files through the classifier.
The fuzzer's bytes are decoded into (seed file, list of token-level mutations); the outcome must be 'accepted' or ClassifyError."""
import os
import sys

REPO = os.path.realpath(os.environ.get("VERIF_REPO", "/repo"))
VERIF = os.path.dirname(os.path.dirname(os.path.dirname(os.path.abspath(__file__))))
sys.path.insert(0, REPO)
sys.path.insert(1, VERIF)
sys.path.insert(2, os.path.join(VERIF, ".deps"))
import warnings

warnings.simplefilter("ignore")
import atheris

with atheris.instrument_imports(include=["vsg.vhdlFile", "vsg.tokens"]):
    import vsg.vhdlFile as VF
from vsg import exceptions

from harness import lexer

SEEDS = []
for rel in os.environ.get("VERIF_FUZZ_SEEDS", "").split(os.pathsep):
    if rel:
        try:
            SEEDS.append(open(rel, encoding="latin-1").read())
        except OSError:
            pass
if not SEEDS:
    SEEDS = ["\nentity e is\n  port (a : in bit);\nend entity e;\n\narchitecture rtl of e is\n  signal s : bit;\nbegin\n  s <= a;\nend architecture rtl;\n"]
ATOMS = [[a for a in lexer.lex(t)] for t in SEEDS]
REPL = ["is", "begin", "end", "then", "(", ")", ";", ":", ",", "<=", ":=", "=>", "'", "process", "when", "others", "\"", "generate", "record", "."]


def build(fdp):
    i = fdp.ConsumeIntInRange(0, len(SEEDS) - 1)
    text, atoms = SEEDS[i], ATOMS[i]
    edits = {}
    trunc = None
    for _ in range(fdp.ConsumeIntInRange(1, 4)):
        k = fdp.ConsumeIntInRange(0, max(0, len(atoms) - 1))
        op = fdp.ConsumeIntInRange(0, 4)
        if op == 0:
            edits[k] = ""
        elif op == 1:
            edits[k] = atoms[k].value + " " + atoms[k].value
        elif op == 2:
            edits[k] = REPL[fdp.ConsumeIntInRange(0, len(REPL) - 1)]
        elif op == 3:
            trunc = atoms[k].start
        else:
            edits[k] = fdp.ConsumeUnicodeNoSurrogates(6)
    out = []
    prev = 0
    for j, a in enumerate(atoms):
        if trunc is not None and a.start >= trunc:
            break
        out.append(text[prev : a.start])
        out.append(edits.get(j, a.value))
        prev = a.end
    else:
        out.append(text[prev:])
    return "".join(out)


import json
import signal
import traceback

KNOWN = set(json.loads(os.environ.get("VERIF_KNOWN_SITES", "[]")))  # "exc|file:function" and "hang|file:function" already listed or fixed
STATS = {"runs": 0, "rejected": 0, "accepted": 0, "excluded_known": 0}
GUARD_S = int(os.environ.get("VERIF_FUZZ_GUARD", "20"))
COLLECT = os.environ.get("VERIF_FUZZ_COLLECT")  # developer mode: log every new site once and keep fuzzing (never part of a registered check)
SEEN = set()


class HangCandidate(BaseException):
    pass


def _alarm(signum, frame):
    raise HangCandidate()


def _frames(tb):
    out = []
    for x in traceback.extract_tb(tb):
        if "/vsg/" in x.filename:
            out.append("%s:%s" % (os.path.relpath(x.filename, REPO), x.name))
    return out


def TestOneInput(data):
    fdp = atheris.FuzzedDataProvider(data)
    text = build(fdp)
    STATS["runs"] += 1
    signal.signal(signal.SIGALRM, _alarm)
    signal.alarm(GUARD_S)
    try:
        VF.vhdlFile(text.split("\n"))
        STATS["accepted"] += 1
    except exceptions.ClassifyError:
        STATS["rejected"] += 1
    except HangCandidate as e:
        fr = _frames(e.__traceback__)
        if any(("hang|" + f) in KNOWN for f in fr):
            STATS["excluded_known"] += 1
            return
        key = "hang|" + "|".join(fr[-3:])
        if COLLECT:
            if key not in SEEN:
                SEEN.add(key)
                open(COLLECT, "a").write(json.dumps({"kind": "hang", "frames": fr, "text": text}) + "\n")
            return
        sys.stderr.write("VERIF-FUZZ-FINDING hang %s\n" % json.dumps({"frames": fr[-6:], "text": text}))
        raise
    except Exception as e:
        fr = _frames(e.__traceback__)
        sig = "%s|%s" % (type(e).__name__, fr[-1] if fr else "?")
        if sig in KNOWN:
            STATS["excluded_known"] += 1
            return
        if COLLECT:
            if sig not in SEEN:
                SEEN.add(sig)
                open(COLLECT, "a").write(json.dumps({"kind": "crash", "sig": sig, "text": text}) + "\n")
            return
        sys.stderr.write("VERIF-FUZZ-FINDING crash %s\n" % json.dumps({"sig": sig, "text": text}))
        raise
    finally:
        signal.alarm(0)
        if STATS["runs"] % 500 == 0:
            sys.stderr.write("VERIF-FUZZ-STATS %s\n" % json.dumps(STATS))


if __name__ == "__main__":
    atheris.Setup(sys.argv, TestOneInput)
    atheris.Fuzz()
