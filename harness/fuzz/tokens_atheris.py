"""atheris (libFuzzer) target for C04a: join(tokens.create(line)) == line for every line of the fuzzed text.
usage: python tokens_atheris.py [libFuzzer flags] ; the oracle is inside the target (a mismatch raises)."""
import os
import sys

sys.path.insert(0, os.path.realpath(os.environ.get("VERIF_REPO", "/repo")))
sys.path.insert(1, os.path.join(os.path.dirname(os.path.dirname(os.path.dirname(os.path.abspath(__file__)))), ".deps"))
import atheris

with atheris.instrument_imports(include=["vsg.tokens"]):
    from vsg import tokens


class RoundTripViolation(Exception):
    pass


def TestOneInput(data):
    fdp = atheris.FuzzedDataProvider(data)
    s = fdp.ConsumeUnicodeNoSurrogates(256)
    for line in s.split("\n"):
        line = line.rstrip("\r")
        t = tokens.create(line)
        if "".join(t) != line:
            raise RoundTripViolation(repr(line))


if __name__ == "__main__":
    atheris.Setup(sys.argv, TestOneInput)
    atheris.Fuzz()
