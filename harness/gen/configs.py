"""Configuration generator: documented option domains (tables/option_domains.json) -> Hypothesis strategy of rule configurations."""
import json
import os

from hypothesis import strategies as st

VERIF = os.path.dirname(os.path.dirname(os.path.dirname(os.path.abspath(__file__))))
_DOM = None


def domains():
    """option -> list of {rules, values}; empty dict until the table exists"""
    global _DOM
    if _DOM is None:
        p = os.path.join(VERIF, "tables", "option_domains.json")
        _DOM = json.load(open(p)) if os.path.exists(p) else {}
        _DOM = {k: v for k, v in _DOM.items() if not k.startswith("_")}
    return _DOM


def conf_strategy():
    return st.none()
