"""Configuration generator: documented option domains (tables/option_domains.json, transcribed from docs/configuring_*.rst, the rule
docs and the rule sources by a research pass) -> rule configurations with documented values only."""
import json
import os
import random

from hypothesis import strategies as st

VERIF = os.path.dirname(os.path.dirname(os.path.dirname(os.path.abspath(__file__))))
_DOM = None
_BY_RULE = None
BASE_ATTRS = ("indent_style", "indent_size", "phase", "disable", "fixable", "severity", "user_error_message")
SKIP_OPTIONS = ("phase",)
SKIP_SUBSTR = ("header_", "footer_", "comment_left", "max_header", "max_footer", "min_height")
GROUPS_FOR = {"case": ["case", "case::keyword", "case::name", "case::label"], "number_of_spaces": ["whitespace"], "indent_size": ["indent", "alignment"], "disable": ["naming", "length", "alignment", "case::name", "blank_line"], "fixable": ["case", "whitespace", "structure", "blank_line"]}


def domains():
    """option -> list of {rules, values, ...}"""
    global _DOM
    if _DOM is None:
        p = os.path.join(VERIF, "tables", "option_domains.json")
        raw = json.load(open(p)) if os.path.exists(p) else {}
        _DOM = {}
        for k, ents in raw.items():
            if k.startswith("_"):
                continue
            keep = []
            for e in ents:
                if not e.get("rules"):
                    continue
                vals = e.get("recommended_values") or e.get("values") or []
                unsafe = e.get("documented_but_unsafe_values") or []
                vals = [v for v in vals if v not in unsafe and v is not None]
                if vals:
                    keep.append({"rules": e["rules"], "values": vals, "default": e.get("default"), "accepts_boolean": e.get("accepts_boolean")})
            if keep:
                _DOM[k] = keep
    return _DOM


def by_rule():
    """rule id -> {option: values} for the rule's own (non-base) options"""
    global _BY_RULE
    if _BY_RULE is None:
        _BY_RULE = {}
        for opt, ents in domains().items():
            if opt in BASE_ATTRS or opt in SKIP_OPTIONS or any(s in opt for s in SKIP_SUBSTR):
                continue
            for e in ents:
                for r in e["rules"]:
                    _BY_RULE.setdefault(r, {})[opt] = e
    return _BY_RULE


def _all_rules():
    d = domains()
    out = set()
    for e in d.get("disable", []):
        out.update(e["rules"])
    return sorted(out)


def _default_disabled():
    return sorted(r for e in domains().get("disable", []) if e.get("default") is True for r in e["rules"])


def _value(rnd, opt, ent, rule_opts, out_entry):
    v = rnd.choice(ent["values"])
    if opt == "case" and v == "regex":
        if "regex" in rule_opts:
            out_entry["regex"] = rnd.choice(rule_opts["regex"]["values"])
        else:
            v = "upper"
    if v in ("yes", "no") and ent.get("accepts_boolean") is True and rnd.random() < 0.3:
        v = v == "yes"
    return v


def random_conf(rnd, style=None, size=None, allow_severity=True):
    """a configuration dictionary with documented values; None for the default configuration"""
    br = by_rule()
    rules_with_opts = sorted(br)
    allr = _all_rules()
    conf = {"rule": {}}
    n = size if size is not None else rnd.choice([1, 2, 3, 5, 8, 12])
    for _ in range(n):
        r = rnd.random()
        if r < 0.55 and rules_with_opts:
            rid = rnd.choice(rules_with_opts)
            ent = conf["rule"].setdefault(rid, {})
            opts = br[rid]
            for opt in rnd.sample(sorted(opts), k=min(len(opts), rnd.randint(1, 2))):
                if opt == "regex":
                    continue
                ent[opt] = _value(rnd, opt, opts[opt], opts, ent)
            if not ent:
                del conf["rule"][rid]
        elif r < 0.70:
            dd = _default_disabled()
            for rid in rnd.sample(dd, k=min(len(dd), rnd.randint(1, 6))):
                conf["rule"].setdefault(rid, {})["disable"] = False
        elif r < 0.80:
            for rid in rnd.sample(allr, k=rnd.randint(1, 8)):
                conf["rule"].setdefault(rid, {})["disable"] = True
        elif r < 0.86:
            for rid in rnd.sample(allr, k=rnd.randint(1, 4)):
                conf["rule"].setdefault(rid, {})["fixable"] = False
        elif r < 0.92:
            conf["rule"].setdefault("global", {})["indent_size"] = rnd.choice([1, 2, 3, 4])
            if rnd.random() < 0.3:
                conf["rule"]["global"]["indent_style"] = "smart_tabs"
        elif r < 0.96:
            opt = rnd.choice(sorted(GROUPS_FOR))
            g = rnd.choice(GROUPS_FOR[opt])
            if opt == "case":
                v = rnd.choice(["upper", "lower", "upper_or_lower"])
            elif opt == "number_of_spaces":
                v = rnd.choice([1, 2, ">=1"])
            elif opt == "indent_size":
                v = rnd.choice([2, 3, 4])
            elif opt == "disable":
                v = rnd.choice([True, False])
            else:
                v = False
            conf["rule"].setdefault("group", {})[g] = {opt: v}
        elif allow_severity:
            for rid in rnd.sample(allr, k=rnd.randint(1, 5)):
                conf["rule"].setdefault(rid, {})["severity"] = "Warning"
    if style is not None:
        # do not redefine entries the style defines itself (whole-entry replacement would silently drop the style's other attributes)
        import yaml

        from harness import vsgapi

        sc = yaml.safe_load(open(os.path.join(vsgapi.REPO, "vsg", "styles", style + ".yaml"))) or {}
        for k in list(conf["rule"]):
            if k in sc.get("rule", {}):
                del conf["rule"][k]
    if not conf["rule"]:
        return None
    return conf


def rules_with_option(opt):
    return sorted(r for e in domains().get(opt, []) for r in e["rules"])


def themed_conf(rnd):
    """a coordinated, project-style configuration: one convention applied to every rule that has the option"""
    theme = rnd.choice(["affix", "affix", "optional_items", "case", "spaces", "alignment", "enable_disabled", "structure_options", "report_only"])
    conf = {"rule": {}}
    R = conf["rule"]
    if theme == "affix":
        suf = rnd.sample(["_i", "_o", "_io", "_t", "_c", "_g", "_s", "_n", "_e"], k=rnd.randint(1, 5))
        pre = rnd.sample(["i_", "o_", "io_", "t_", "c_", "g_", "s_", "f_"], k=rnd.randint(0, 4))
        case = rnd.choice(["upper", "lower", "upper", "lower", "upper_or_lower"])
        if rnd.random() < 0.5:
            suf = [x.upper() if rnd.random() < 0.3 else x for x in suf]
        for rid in rules_with_option("suffix_exceptions"):
            e = R.setdefault(rid, {})
            e["suffix_exceptions"] = list(suf)
            if pre:
                e["prefix_exceptions"] = list(pre)
            e["case"] = case
    elif theme == "optional_items":
        for e in domains().get("action", []):
            if "remove" in e["values"]:
                for rid in e["rules"]:
                    R.setdefault(rid, {})["action"] = rnd.choice(["remove", "remove", "add"])
                    R[rid]["disable"] = False
        for e in domains().get("parenthesis", []):
            for rid in e["rules"]:
                R.setdefault(rid, {})["parenthesis"] = rnd.choice(e["values"])
    elif theme == "case":
        R["group"] = {rnd.choice(["case", "case::keyword"]): {"case": rnd.choice(["upper", "upper_or_lower"])}}
        if rnd.random() < 0.5:
            R["group"]["case::name"] = {"case": R["group"][list(R["group"])[0]]["case"]} if "case" in R["group"] else {"case": rnd.choice(["upper", "lower"])}
    elif theme == "spaces":
        v = rnd.choice([1, 2, ">=1", "1+", 3])
        for rid in rnd.sample(rules_with_option("number_of_spaces"), k=rnd.randint(20, 120)):
            R.setdefault(rid, {})["number_of_spaces"] = v
    elif theme == "alignment":
        for opt in ("compact_alignment", "blank_line_ends_group", "comment_line_ends_group", "if_control_statements_ends_group", "case_control_statements_ends_group", "loop_control_statements_ends_group", "separate_generic_port_alignment"):
            v = rnd.choice(["yes", "no"])
            for rid in rules_with_option(opt):
                R.setdefault(rid, {})[opt] = v
    elif theme == "enable_disabled":
        for rid in _default_disabled():
            if rnd.random() < 0.8:
                R.setdefault(rid, {})["disable"] = False
    elif theme == "report_only":
        # a project that only wants to be told about some classes of problems: warnings and report-only groups
        g = {}
        for grp in rnd.sample(["case", "whitespace", "blank_line", "alignment", "indent", "length", "naming"], k=rnd.randint(1, 3)):
            g[grp] = {"severity": "Warning"}
        for grp in rnd.sample(["structure", "whitespace", "blank_line", "indent"], k=rnd.randint(1, 2)):
            g.setdefault(grp, {})["fixable"] = False
        R["group"] = g
    elif theme == "structure_options":
        br = by_rule()
        for rid in sorted(br):
            for opt, ent in br[rid].items():
                if opt.endswith("_new_line") or opt.startswith("new_line") or opt in ("first_open_paren", "last_close_paren", "interface_element", "interface_list_semicolon", "assign_on_single_line", "ignore_single_line", "array_constraint") or opt.startswith("record_constraint"):
                    if rnd.random() < 0.6:
                        R.setdefault(rid, {})[opt] = rnd.choice(ent["values"])
    if rnd.random() < 0.3:
        R.setdefault("global", {})["indent_size"] = rnd.choice([2, 3, 4])
    return conf if R else None


def random_stack(rnd, style=None):
    """0-2 configuration files (for the -oc round trip)"""
    k = rnd.choice([0, 1, 1, 1, 2])
    out = []
    for _ in range(k):
        c = random_conf(rnd, style)
        if c:
            out.append(c)
    if out and rnd.random() < 0.15:
        out[0]["severity"] = {"Todo": {"type": "error"}, "Note": {"type": "warning"}}
        rid = rnd.choice(_all_rules())
        if not (style and rid in out[0]["rule"]):
            out[0]["rule"].setdefault(rid, {})["severity"] = rnd.choice(["Todo", "Note"])
    # documented top-level 'indent' section (docs/configuring_indentation.rst): 1-3 entries of the built-in table get another value
    if rnd.random() < 0.3:
        sec = random_indent_section(rnd)
        if out and rnd.random() < 0.7:
            out[rnd.randrange(len(out))]["indent"] = sec
        else:
            out.append({"indent": sec})
    return out


_INDENT_LEAVES = None


def random_indent_section(rnd):
    global _INDENT_LEAVES
    if _INDENT_LEAVES is None:
        import yaml

        from harness import vsgapi

        tab = yaml.safe_load(open(os.path.join(vsgapi.REPO, "vsg", "vhdlFile", "indent", "indent_config.yaml")))["indent"]["tokens"]
        _INDENT_LEAVES = sorted((g, t, k) for g, d in tab.items() for t, dd in (d or {}).items() for k in (dd or {}))
    toks = {}
    for g, t, k in rnd.sample(_INDENT_LEAVES, k=rnd.randint(1, 3)) + ([("use_clause", "keyword", "token_if_no_matching_library_clause")] if rnd.random() < 0.3 else []):
        toks.setdefault(g, {}).setdefault(t, {})[k] = rnd.choice(["current", "+1", "-1", 0, 1, 2])
    return {"tokens": toks}


def conf_strategy(p_default=0.45):
    """Hypothesis strategy: None (default configuration) or a generated configuration dictionary"""
    gen = st.integers(0, 2**31 - 1).map(lambda s: (themed_conf(random.Random(s)) if s % 3 == 0 else random_conf(random.Random(s))))
    return st.one_of(st.none(), gen) if p_default >= 0.45 else st.one_of(gen, st.none())
