"""Configuration generator (placeholder: default-only until option_domains is filled in)."""
from hypothesis import strategies as st


def conf_strategy():
    return st.none()
