"""Configuration generator: documented option domains (tables/option_domains.json, transcribed from docs/configuring_*.rst, the rule
docs and the rule sources by a research pass) -> rule configurations with documented values only."""
import json
import os
import random

from hypothesis import strategies as st

VERIF = os.path.dirname(os.path.dirname(os.path.dirname(os.path.abspath(__file__))))
_DOM = None
_BY_RULE = None
BASE_ATTRS = ("indent_style", "indent_size", "phase", "disable", "fixable", "severity", "user_error_message")
SKIP_OPTIONS = ("phase",)
SKIP_SUBSTR = ("header_", "footer_", "comment_left", "max_header", "max_footer", "min_height")
GROUPS_FOR = {"case": ["case", "case::keyword", "case::name", "case::label"], "number_of_spaces": ["whitespace"], "indent_size": ["indent", "alignment"], "disable": ["naming", "length", "alignment", "case::name", "blank_line"], "fixable": ["case", "whitespace", "structure", "blank_line"]}


def domains():
    """option -> list of {rules, values, ...}"""
    global _DOM
    if _DOM is None:
        p = os.path.join(VERIF, "tables", "option_domains.json")
        raw = json.load(open(p)) if os.path.exists(p) else {}
        _DOM = {}
        for k, ents in raw.items():
            if k.startswith("_"):
                continue
            keep = []
            for e in ents:
                if not e.get("rules"):
                    continue
                vals = e.get("recommended_values") or e.get("values") or []
                unsafe = e.get("documented_but_unsafe_values") or []
                vals = [v for v in vals if v not in unsafe and v is not None]
                if vals:
                    keep.append({"rules": e["rules"], "values": vals, "default": e.get("default"), "accepts_boolean": e.get("accepts_boolean")})
            if keep:
                _DOM[k] = keep
    return _DOM


def by_rule():
    """rule id -> {option: values} for the rule's own (non-base) options"""
    global _BY_RULE
    if _BY_RULE is None:
        _BY_RULE = {}
        for opt, ents in domains().items():
            if opt in BASE_ATTRS or opt in SKIP_OPTIONS or any(s in opt for s in SKIP_SUBSTR):
                continue
            for e in ents:
                for r in e["rules"]:
                    _BY_RULE.setdefault(r, {})[opt] = e
    return _BY_RULE


def _all_rules():
    d = domains()
    out = set()
    for e in d.get("disable", []):
        out.update(e["rules"])
    return sorted(out)


def _default_disabled():
    return sorted(r for e in domains().get("disable", []) if e.get("default") is True for r in e["rules"])


def _value(rnd, opt, ent, rule_opts, out_entry):
    v = rnd.choice(ent["values"])
    if opt == "case" and v == "regex":
        if "regex" in rule_opts:
            out_entry["regex"] = rnd.choice(rule_opts["regex"]["values"])
        else:
            v = "upper"
    if v in ("yes", "no") and ent.get("accepts_boolean") is True and rnd.random() < 0.3:
        v = v == "yes"
    return v


def random_conf(rnd, style=None, size=None, allow_severity=True):
    """a configuration dictionary with documented values; None for the default configuration"""
    br = by_rule()
    rules_with_opts = sorted(br)
    allr = _all_rules()
    conf = {"rule": {}}
    n = size if size is not None else rnd.choice([1, 2, 3, 5, 8, 12])
    for _ in range(n):
        r = rnd.random()
        if r < 0.55 and rules_with_opts:
            rid = rnd.choice(rules_with_opts)
            ent = conf["rule"].setdefault(rid, {})
            opts = br[rid]
            for opt in rnd.sample(sorted(opts), k=min(len(opts), rnd.randint(1, 2))):
                if opt == "regex":
                    continue
                ent[opt] = _value(rnd, opt, opts[opt], opts, ent)
            if not ent:
                del conf["rule"][rid]
        elif r < 0.70:
            dd = _default_disabled()
            for rid in rnd.sample(dd, k=min(len(dd), rnd.randint(1, 6))):
                conf["rule"].setdefault(rid, {})["disable"] = False
        elif r < 0.80:
            for rid in rnd.sample(allr, k=rnd.randint(1, 8)):
                conf["rule"].setdefault(rid, {})["disable"] = True
        elif r < 0.86:
            for rid in rnd.sample(allr, k=rnd.randint(1, 4)):
                conf["rule"].setdefault(rid, {})["fixable"] = False
        elif r < 0.92:
            conf["rule"].setdefault("global", {})["indent_size"] = rnd.choice([1, 2, 3, 4])
            if rnd.random() < 0.3:
                conf["rule"]["global"]["indent_style"] = "smart_tabs"
        elif r < 0.96:
            opt = rnd.choice(sorted(GROUPS_FOR))
            g = rnd.choice(GROUPS_FOR[opt])
            if opt == "case":
                v = rnd.choice(["upper", "lower", "upper_or_lower"])
            elif opt == "number_of_spaces":
                v = rnd.choice([1, 2, ">=1"])
            elif opt == "indent_size":
                v = rnd.choice([2, 3, 4])
            elif opt == "disable":
                v = rnd.choice([True, False])
            else:
                v = False
            conf["rule"].setdefault("group", {})[g] = {opt: v}
        elif allow_severity:
            for rid in rnd.sample(allr, k=rnd.randint(1, 5)):
                conf["rule"].setdefault(rid, {})["severity"] = "Warning"
    if style is not None:
        # do not redefine entries the style defines itself (whole-entry replacement would silently drop the style's other attributes)
        import yaml

        from harness import vsgapi

        sc = yaml.safe_load(open(os.path.join(vsgapi.REPO, "vsg", "styles", style + ".yaml"))) or {}
        for k in list(conf["rule"]):
            if k in sc.get("rule", {}):
                del conf["rule"][k]
    if not conf["rule"]:
        return None
    return conf


def random_stack(rnd, style=None):
    """0-2 configuration files (for the -oc round trip)"""
    k = rnd.choice([0, 1, 1, 1, 2])
    out = []
    for _ in range(k):
        c = random_conf(rnd, style)
        if c:
            out.append(c)
    if out and rnd.random() < 0.15:
        out[0]["severity"] = {"Todo": {"type": "error"}, "Note": {"type": "warning"}}
        rid = rnd.choice(_all_rules())
        if not (style and rid in out[0]["rule"]):
            out[0]["rule"].setdefault(rid, {})["severity"] = rnd.choice(["Todo", "Note"])
    return out


def conf_strategy(p_default=0.45):
    """Hypothesis strategy: None (default configuration) or a generated configuration dictionary"""
    gen = st.integers(0, 2**31 - 1).map(lambda s: random_conf(random.Random(s)))
    return st.one_of(st.none(), gen) if p_default >= 0.45 else st.one_of(gen, st.none())
