"""D3: grammar-generated VHDL-2008 designs.

gen_design(rnd) builds a small design file from a grammar of the constructs VSG's classifier has fixtures for.  Every optional
element (the 'is' of a process, the keyword and name after 'end', labels, the 'component' keyword, parentheses around conditions,
multi-identifier declarations, default values, ...) is an independent random choice, because those are the triggers of the
structural rules.  All randomness comes from the random.Random handed in (seeded from a Hypothesis draw).  The result is a token
list rendered with random tight/loose spacing and ordinary line breaks; harness.gen.layout then re-lays it out further.
"""

KW_CASE = ("lower", "lower", "lower", "upper", "mixed")


class G:
    def __init__(self, rnd, size=3):
        self.r = rnd
        # independent stream for constructs added later, so that designs which do not use them stay exactly as they were
        import random as _random

        self.r2 = _random.Random(hash(rnd.getstate()[1][:8]))
        self.size = size
        self.kwcase = rnd.choice(KW_CASE)
        self.n = 0
        self.signals = ["clk", "rst", "a", "b", "c", "d", "sel", "q", "data_i", "data_o", "cnt", "en"]
        self.vectors = ["data_i", "data_o", "cnt"]
        self.consts = ["C_WIDTH", "C_DEPTH", "c_zero"]
        self.types = ["std_logic", "std_logic_vector(7 downto 0)", "std_logic_vector(C_WIDTH-1 downto 0)", "integer", "natural", "boolean", "unsigned(3 downto 0)", "integer range 0 to 15", "t_state", "bit"]
        self.out = []
        self.vars = []

    # ---- token helpers --------------------------------------------------------------
    def kw(self, w):
        c = self.kwcase
        if c == "upper":
            return w.upper()
        if c == "mixed" and self.r.random() < 0.3:
            return w.capitalize()
        return w

    STEMS = ["rdi", "info", "radio", "budget", "magic", "data", "addr", "wr_en", "valid", "ready", "status", "cfg", "count", "fifo", "sync", "tag", "mag", "obs"]
    AFFIX = {"s_": ("s_", "_s", "sig_", ""), "c_": ("c_", "_c", "C_", ""), "p_": ("i_", "_i", "_o", "o_", "_io", ""), "g_": ("g_", "_g", "G_", ""), "v_": ("v_", "_v", ""), "t_e": ("t_", "_t", "")}

    def uid(self, p):
        self.n += 1
        if p in self.AFFIX and self.r.random() < 0.7:
            a = self.r.choice(self.AFFIX[p])
            stem = self.r.choice(self.STEMS)
            if self.r.random() < 0.3:
                stem = stem.upper()
            self.used = getattr(self, "used", set())
            # the number (when one is needed for uniqueness) goes inside the name so that prefix and suffix stay at the ends
            for num in ("", str(self.n)):
                nm = (a + stem + num) if a.endswith("_") or not a else (stem + num + a)
                if nm.lower() not in self.used:
                    break
            self.used.add(nm.lower())
            return nm
        return "%s%d" % (p, self.n)

    def chance(self, p):
        return self.r.random() < p

    # ---- expressions ------------------------------------------------------------------
    def literal(self):
        return self.r.choice(["'0'", "'1'", "'Z'", "'X'", "0", "1", "42", "16#FF#", "2#1010_1010#", "1.5", "1.0e3", 'x"AB"', 'X"0f"', 'b"1010"', '8x"F"', '"0101"', '"a""b"', "true", "false"])

    def name(self, depth=0):
        r = self.r.random()
        s = self.r.choice(self.signals)
        if r < 0.55 or depth > 2:
            return [s]
        if r < 0.65:
            return [self.r.choice(self.vectors), "(", self.r.choice(["0", "1", "i", "C_WIDTH-1"]), ")"]
        if r < 0.75:
            return [self.r.choice(self.vectors), "(", self.r.choice(["7", "3", "C_WIDTH-1"]), self.kw("downto"), "0", ")"]
        if r < 0.82:
            return ["rec", ".", self.r.choice(["field_a", "field_b"])]
        if r < 0.90:
            return [self.r.choice(self.vectors), "'", self.r.choice(["length", "range", "high", "low", "left"])] if self.chance(0.7) else [s, "'", "event"]
        return [self.r.choice(["to_integer", "resize", "f_max", "std_logic_vector", "unsigned", "rising_edge"]), "("] + self.expr(depth + 1) + ([",", self.r.choice(["8", "C_WIDTH"])] if self.chance(0.3) else []) + [")"]

    def primary(self, depth):
        r = self.r.random()
        if r < 0.3:
            return [self.literal()]
        if r < 0.8 or depth > 2:
            return self.name(depth)
        if r < 0.9:
            return ["("] + self.expr(depth + 1) + [")"]
        return [self.r.choice(["std_logic_vector", "t_state", "unsigned"]), "'", "("] + self.expr(depth + 1) + [")"]

    def expr(self, depth=0):
        e = self.primary(depth)
        if depth < 2:
            for _ in range(self.r.choice([0, 0, 1, 1, 2])):
                op = self.r.choice(["and", "or", "xor", "nand", "+", "-", "&", "*", "/", "mod", "=", "/=", "<", ">=", "sll", "**"])
                e = e + [self.kw(op) if op.isalpha() else op] + self.primary(depth + 1)
        if self.chance(0.08):
            e = [self.kw("not")] + e
        if self.chance(0.05):
            e = ["-"] + e
        return e

    def condition(self):
        r = self.r.random()
        if r < 0.25:
            c = [self.kw("rising_edge"), "(", "clk", ")"]
        elif r < 0.35:
            c = ["clk", "'", self.kw("event"), self.kw("and"), "clk", "=", "'1'"]
        else:
            c = self.name(2) + [self.r.choice(["=", "/=", "<", ">"])] + [self.literal() if self.chance(0.7) else self.r.choice(self.signals)]
            if self.chance(0.3):
                c = ["("] + c + [")", self.kw(self.r.choice(["and", "or"]))] + ["("] + self.name(2) + ["=", self.literal(), ")"]
        if self.chance(0.3):
            c = ["("] + c + [")"]
        return c

    def aggregate(self):
        r = self.r.random()
        if r < 0.5:
            return ["(", self.kw("others"), "=>", "'0'", ")"]
        if r < 0.8:
            return ["(", "0", "=>", "'1'", ",", self.kw("others"), "=>", "'0'", ")"]
        return ["(", self.literal(), ",", self.literal(), ",", self.literal(), ")"]

    # ---- declarations -------------------------------------------------------------------
    def idlist(self, prefix, pmulti=0.3):
        ids = [self.uid(prefix)]
        while self.chance(pmulti) and len(ids) < 4:
            ids.append(self.uid(prefix))
        t = []
        for i, x in enumerate(ids):
            if i:
                t.append(",")
            t.append(x)
        return t, ids

    def subtype_ind(self):
        return self.r.choice(self.types).replace("(", " ( ").replace(")", " ) ").replace("-", " - ").split()

    def default(self, typ):
        t = " ".join(typ)
        if "vector" in t or "unsigned" in t:
            return self.aggregate()
        if t.startswith("std_logic") or t == "bit":
            return [self.r.choice(["'0'", "'1'"])]
        if t == "boolean":
            return [self.kw(self.r.choice(["true", "false"]))]
        if t == "t_state":
            return ["IDLE"]
        return [self.r.choice(["0", "1", "C_DEPTH", "16#F#"])]

    def decl(self, region):
        r = self.r.random()
        L = []
        if r < 0.35 and region in ("arch", "pkg"):
            ids, names = self.idlist("s_")
            typ = self.subtype_ind()
            L = [self.kw("signal")] + ids + [":"] + typ + ([":="] + self.default(typ) if self.chance(0.35) else []) + [";"]
            self.signals += [n for n in names if "vector" not in " ".join(typ)][:1]
        elif r < 0.35:
            typ = self.subtype_ind()
            ids, vnames = self.idlist("v_", 0.25)
            self.vars += vnames
            L = [self.kw("variable")] + ids + [":"] + typ + ([":="] + self.default(typ) if self.chance(0.35) else []) + [";"]
        elif r < 0.5:
            typ = self.subtype_ind()
            ids, _ = self.idlist("c_", 0.15)
            L = [self.kw("constant")] + ids + [":"] + typ + [":="] + self.default(typ) + [";"]
        elif r < 0.58:
            L = [self.kw("type"), self.uid("t_e"), self.kw("is"), "(", self.uid("ST_"), ",", self.uid("ST_"), ",", self.uid("ST_"), ")", ";"]
        elif r < 0.64:
            L = [self.kw("type"), self.uid("t_arr"), self.kw("is"), self.kw("array"), "(", "0", self.kw("to"), "C_DEPTH", "-", "1", ")", self.kw("of")] + self.subtype_ind() + [";"]
        elif r < 0.70:
            nm = self.uid("t_rec")
            L = [self.kw("type"), nm, self.kw("is"), self.kw("record"), "\n", "f1", ":", "std_logic", ";", "\n", "f2", ",", "f3", ":", "integer", ";", "\n", self.kw("end"), self.kw("record")] + ([nm] if self.chance(0.5) else []) + [";"]
        elif r < 0.75:
            L = [self.kw("subtype"), self.uid("st_"), self.kw("is")] + self.subtype_ind() + [";"]
        elif r < 0.82 and region == "arch":
            L = self.component()
        elif r < 0.88:
            L = self.subprogram(body=self.chance(0.7) and region != "pkg")
        elif r < 0.92:
            L = [self.kw("alias"), self.uid("al_"), ":", "std_logic", self.kw("is"), self.r.choice(self.vectors), "(", "0", ")", ";"]
        elif r < 0.96:
            L = [self.kw("attribute"), "keep", ":", "boolean", ";", "\n", self.kw("attribute"), "keep", self.kw("of"), self.r.choice(self.signals), ":", self.kw("signal"), self.kw("is"), self.kw("true"), ";"]
        else:
            if region == "arch":
                L = [self.kw("shared"), self.kw("variable"), self.uid("sv_"), ":", "integer", ";"]
            else:
                L = [self.kw("variable"), self.uid("v_"), ":", "integer", ":=", "0", ";"]
        return L + ["\n"]

    def interface(self, kind):
        items = []
        n = self.r.randint(1, 4)
        for i in range(n):
            ids, _ = self.idlist("g_" if kind == "generic" else "p_", 0.25)
            if kind == "generic":
                typ = self.r.choice([["integer"], ["natural"], ["boolean"], ["std_logic_vector", "(", "7", self.kw("downto"), "0", ")"]])
                it = ids + [":"] + typ + ([":="] + self.default(typ) if self.chance(0.6) else [])
            else:
                typ = self.subtype_ind()
                mode = self.r.choice(["in", "in", "out", "inout", "buffer"])
                it = ids + [":", self.kw(mode)] + typ + ([":="] + self.default(typ) if mode == "in" and self.chance(0.25) else [])
            items.append(it)
        t = [self.kw(kind), "(", "\n"]
        for i, it in enumerate(items):
            t += it + ([";"] if i < len(items) - 1 else []) + ["\n"]
        return t + [")", ";", "\n"]

    def component(self):
        nm = self.uid("comp_")
        t = [self.kw("component"), nm] + ([self.kw("is")] if self.chance(0.5) else []) + ["\n"]
        if self.chance(0.4):
            t += self.interface("generic")
        t += self.interface("port")
        return t + [self.kw("end"), self.kw("component")] + ([nm] if self.chance(0.5) else []) + [";"]

    def subprogram(self, body):
        nm = self.uid("f_")
        isf = self.chance(0.6)
        if isf:
            t = ([self.kw(self.r.choice(["pure", "impure"]))] if self.chance(0.2) else []) + [self.kw("function"), nm]
            if self.chance(0.8):
                t += ["(", "x", ":", "integer", ";", "y", ":", self.kw("in"), "std_logic", ")"]
            t += [self.kw("return"), "integer"]
        else:
            t = [self.kw("procedure"), nm]
            if self.chance(0.8):
                t += ["(", self.kw("signal"), "s", ":", self.kw("out"), "std_logic", ";", self.kw("constant"), "k", ":", self.kw("in"), "integer", ")"]
        if not body:
            return t + [";"]
        t += [self.kw("is"), "\n"]
        self.vars = []
        for _ in range(self.r.randint(0, 2)):
            vn = self.uid("v_")
            self.vars.append(vn)
            t += [self.kw("variable"), vn, ":", "integer", ":=", "0", ";", "\n"]
        t += [self.kw("begin"), "\n"]
        old = self.signals
        self.signals = self.signals + ["x"]
        for _ in range(self.r.randint(0, 2)):
            t += self.seq(1, infunc=isf)
        self.signals = old
        if isf:
            t += [self.kw("return")] + self.expr(1) + [";", "\n"]
        self.vars = []
        t += [self.kw("end")] + ([self.kw("function" if isf else "procedure")] if self.chance(0.6) else []) + ([nm] if self.chance(0.5) else []) + [";"]
        return t

    # ---- sequential statements ----------------------------------------------------------
    def target(self):
        return self.name(2) if self.chance(0.3) else [self.r.choice(self.signals)]

    def seq(self, depth, infunc=False, inloop=False):
        r = self.r.random()
        lab = [self.uid("lbl_"), ":"] if self.chance(0.12) else []
        if self.vars and self.chance(0.2):
            v = self.r.choice(self.vars)
            return [v, ":=", v if self.chance(0.4) else self.r.choice(self.vars), self.r.choice(["+", "-", "and", "or"]), self.r.choice(["1", "c_zero", self.r.choice(self.vars)]), ";", "\n"]
        if r < 0.35 or depth > 3:
            if infunc:
                return [self.uid("v_") if False else "x", ":="] + self.expr(1) + [";", "\n"]
            t = lab + self.target() + ["<="] + (self.expr() if self.chance(0.85) else self.aggregate())
            if self.chance(0.1):
                t += [self.kw("after"), "1", "ns"]
            if self.chance(0.1):
                t += [self.kw("when")] + self.condition() + [self.kw("else")] + self.expr(1)
            return t + [";", "\n"]
        if r < 0.55:
            t = lab + [self.kw("if")] + self.condition() + [self.kw("then"), "\n"]
            for _ in range(self.r.randint(1, 2)):
                t += self.seq(depth + 1, infunc, inloop)
            for _ in range(self.r.choice([0, 0, 1, 2])):
                t += [self.kw("elsif")] + self.condition() + [self.kw("then"), "\n"] + self.seq(depth + 1, infunc, inloop)
            if self.chance(0.5):
                t += [self.kw("else"), "\n"] + self.seq(depth + 1, infunc, inloop)
            return t + [self.kw("end"), self.kw("if")] + ([lab[0]] if lab and self.chance(0.5) else []) + [";", "\n"]
        if r < 0.68:
            t = lab + [self.kw("case"), self.r.choice(self.signals), self.kw("is"), "\n"]
            for ch in self.r.sample(["'0'", "'1'", "'Z'"], k=self.r.randint(1, 2)):
                t += [self.kw("when"), ch] + (["|", "'X'"] if self.chance(0.2) else []) + ["=>", "\n"] + self.seq(depth + 1, infunc, inloop)
            t += [self.kw("when"), self.kw("others"), "=>", "\n"] + ([self.kw("null"), ";", "\n"] if self.chance(0.5) else self.seq(depth + 1, infunc, inloop))
            return t + [self.kw("end"), self.kw("case")] + ([lab[0]] if lab and self.chance(0.5) else []) + [";", "\n"]
        if r < 0.78:
            lbl = [self.uid("loop_"), ":"] if self.chance(0.4) else []
            rr = self.r.random()
            if rr < 0.6:
                head = [self.kw("for"), "i", self.kw("in"), "0", self.kw("to"), "7"] if self.chance(0.6) else [self.kw("for"), "i", self.kw("in"), self.r.choice(self.vectors), "'", "range"]
            elif rr < 0.85:
                head = [self.kw("while")] + self.condition()
            else:
                head = []
            t = lbl + head + [self.kw("loop"), "\n"] + self.seq(depth + 1, infunc, True)
            if self.chance(0.3):
                t += [self.kw(self.r.choice(["exit", "next"]))] + ([self.kw("when")] + self.condition() if self.chance(0.6) else []) + [";", "\n"]
            return t + [self.kw("end"), self.kw("loop")] + ([lbl[0]] if lbl and self.chance(0.5) else []) + [";", "\n"]
        if r < 0.84:
            return lab + [self.kw("assert")] + self.condition() + ([self.kw("report"), '"failed: "', "&", '"x"'] if self.chance(0.7) else []) + ([self.kw("severity"), self.kw(self.r.choice(["note", "warning", "error", "failure"]))] if self.chance(0.5) else []) + [";", "\n"]
        if r < 0.88:
            return lab + [self.kw("report"), '"msg"'] + ([self.kw("severity"), self.kw("note")] if self.chance(0.5) else []) + [";", "\n"]
        if r < 0.92 and not infunc:
            rr = self.r.random()
            if rr < 0.4:
                return [self.kw("wait"), self.kw("until")] + self.condition() + [";", "\n"]
            if rr < 0.7:
                return [self.kw("wait"), self.kw("for"), "10", "ns", ";", "\n"]
            return [self.kw("wait"), self.kw("on"), "clk", ",", "rst", ";", "\n"]
        if r < 0.96:
            return lab + [self.kw("null"), ";", "\n"]
        return lab + [self.r.choice(["p_do", "f_log"]), "("] + self.expr(1) + [",", self.r.choice(self.signals), ")", ";", "\n"]

    # ---- concurrent statements ------------------------------------------------------------
    def conc(self, depth):
        r = self.r.random()
        if r < 0.28:
            lbl = [self.uid("proc_"), ":"] if self.chance(0.5) else []
            t = lbl + ([self.kw("postponed")] if self.chance(0.03) else []) + [self.kw("process")]
            sens = self.chance(0.75)
            if sens:
                t += ["("] + (["clk", ",", "rst"] if self.chance(0.6) else [self.kw("all")] if self.chance(0.3) else ["clk"]) + [")"]
            if self.chance(0.6):
                t += [self.kw("is")]
            t += ["\n"]
            self.vars = []
            for _ in range(self.r.choice([0, 0, 1, 2])):
                t += self.decl("proc")
            t += [self.kw("begin"), "\n"]
            for _ in range(self.r.randint(1, 3)):
                t += self.seq(1)
            if not sens:
                t += [self.kw("wait"), ";", "\n"]
            self.vars = []
            return t + [self.kw("end"), self.kw("process")] + ([lbl[0]] if lbl and self.chance(0.5) else []) + [";", "\n", "\n"]
        if r < 0.45:
            lbl = [self.uid("asg_"), ":"] if self.chance(0.15) else []
            return lbl + self.target() + ["<="] + (self.expr() if self.chance(0.8) else self.aggregate()) + [";", "\n"]
        if r < 0.55:
            t = self.target() + ["<="] + self.expr(1) + [self.kw("when")] + self.condition() + [self.kw("else"), "\n"]
            if self.chance(0.5):
                t += self.expr(1) + [self.kw("when")] + self.condition() + [self.kw("else"), "\n"]
            return t + self.expr(1) + [";", "\n"]
        if r < 0.62:
            t = [self.kw("with"), self.r.choice(self.signals), self.kw("select"), "\n"] + self.target() + ["<="]
            t += self.expr(1) + [self.kw("when"), "'0'", ",", "\n"] + self.expr(1) + [self.kw("when"), "'1'", ",", "\n"] + self.expr(1) + [self.kw("when"), self.kw("others"), ";", "\n"]
            return t
        if r < 0.75:
            lbl = self.uid("u_")
            rr = self.r.random()
            if rr < 0.5:
                t = [lbl, ":"] + ([self.kw("component")] if self.chance(0.3) else []) + [self.uid("comp_")]
            elif rr < 0.9:
                t = [lbl, ":", self.kw("entity"), "work", ".", self.uid("ent_")] + (["(", "rtl", ")"] if self.chance(0.4) else [])
            else:
                t = [lbl, ":", self.kw("configuration"), "work", ".", self.uid("cfg_")]
            t += ["\n"]
            if self.chance(0.4):
                t += [self.kw("generic"), self.kw("map"), "(", "\n", "G_A", "=>", "8", ",", "\n", "G_B", "=>", self.kw("true"), "\n", ")", "\n"]
            t += [self.kw("port"), self.kw("map"), "(", "\n"]
            n = self.r.randint(1, 4)
            for i in range(n):
                act = self.name(1) if self.chance(0.8) else [self.kw("open")]
                t += (["P_%d" % i, "=>"] if self.chance(0.85) else []) + act + ([","] if i < n - 1 else []) + ["\n"]
            return t + [")", ";", "\n", "\n"]
        if r < 0.85 and depth < 2:
            lbl = self.uid("gen_")
            rr = self.r.random()
            if rr < 0.5:
                head = [self.kw("for"), "i", self.kw("in"), "0", self.kw("to"), "3", self.kw("generate")]
            elif rr < 0.9:
                head = [self.kw("if"), "C_WIDTH", ">", "4", self.kw("generate")]
            else:
                head = None
            if head is None:
                t = [lbl, ":", self.kw("case"), "C_WIDTH", self.kw("generate"), "\n", self.kw("when"), "8", "=>", "\n"] + self.conc(depth + 1) + [self.kw("when"), self.kw("others"), "=>", "\n"] + self.conc(depth + 1)
                return t + [self.kw("end"), self.kw("generate")] + ([lbl] if self.chance(0.5) else []) + [";", "\n", "\n"]
            t = [lbl, ":"] + head + ["\n"]
            if self.chance(0.25):
                t += self.decl("arch") + [self.kw("begin"), "\n"]
            for _ in range(self.r.randint(1, 2)):
                t += self.conc(depth + 1)
            if head[0].lower() == "if" and self.chance(0.3):
                t += [self.kw("else"), self.kw("generate"), "\n"] + self.conc(depth + 1)
            return t + [self.kw("end"), self.kw("generate")] + ([lbl] if self.chance(0.5) else []) + [";", "\n", "\n"]
        if r < 0.90 and depth < 2:
            lbl = self.uid("blk_")
            t = [lbl, ":", self.kw("block")] + ([self.kw("is")] if self.chance(0.5) else []) + ["\n"]
            for _ in range(self.r.choice([0, 1])):
                t += self.decl("arch")
            t += [self.kw("begin"), "\n"] + self.conc(depth + 1)
            return t + [self.kw("end"), self.kw("block")] + ([lbl] if self.chance(0.5) else []) + [";", "\n", "\n"]
        if r < 0.96:
            return ([self.uid("chk_"), ":"] if self.chance(0.3) else []) + [self.kw("assert")] + self.condition() + [self.kw("report"), '"bad"', self.kw("severity"), self.kw("error"), ";", "\n"]
        return ([self.uid("call_"), ":"] if self.chance(0.3) else []) + ["p_do", "(", self.r.choice(self.signals), ",", "1", ")", ";", "\n"]

    # ---- design units -------------------------------------------------------------------------
    def context(self):
        t = []
        if self.chance(0.8):
            t += [self.kw("library"), "ieee", ";", "\n"]
            if self.r2.random() < 0.2:
                t += ["\n"]
            t += [self.kw("use"), "ieee", ".", "std_logic_1164", ".", self.kw("all"), ";", "\n"]
            if self.chance(0.5):
                t += [self.kw("use"), "ieee", ".", "numeric_std", ".", self.kw("all"), ";", "\n"]
            if self.chance(0.2):
                t += [self.kw("library"), "work", ";", "\n", self.kw("use"), "work", ".", "pkg_x", ".", self.kw("all"), ";", "\n"]
            if self.r2.random() < 0.2:
                t += [self.kw("context"), "work", ".", "common_ctx", ";", "\n"]
            t += ["\n"]
        return t

    def entity(self, nm):
        t = self.context() + [self.kw("entity"), nm, self.kw("is"), "\n"]
        if self.chance(0.5):
            t += self.interface("generic")
        if self.chance(0.9):
            t += self.interface("port")
        return t + [self.kw("end")] + ([self.kw("entity")] if self.chance(0.6) else []) + ([nm] if self.chance(0.6) else []) + [";", "\n", "\n"]

    def architecture(self, ent):
        nm = self.r.choice(["rtl", "behav", "arch", "RTL"])
        t = self.context() if self.chance(0.3) else []
        t += [self.kw("architecture"), nm, self.kw("of"), ent, self.kw("is"), "\n", "\n"]
        for _ in range(self.r.randint(0, 2 + self.size)):
            t += self.decl("arch")
        t += ["\n", self.kw("begin"), "\n", "\n"]
        for _ in range(self.r.randint(1, 2 + self.size)):
            t += self.conc(0)
        return t + [self.kw("end")] + ([self.kw("architecture")] if self.chance(0.6) else []) + ([nm] if self.chance(0.6) else []) + [";", "\n", "\n"]

    def package(self):
        nm = self.uid("pkg_")
        t = self.context() + [self.kw("package"), nm, self.kw("is"), "\n", "\n"]
        for _ in range(self.r.randint(1, 2 + self.size)):
            t += self.decl("pkg")
        t += ["\n", self.kw("end")] + ([self.kw("package")] if self.chance(0.6) else []) + ([nm] if self.chance(0.6) else []) + [";", "\n", "\n"]
        if self.chance(0.5):
            t += [self.kw("package"), self.kw("body"), nm, self.kw("is"), "\n", "\n"]
            for _ in range(self.r.randint(0, 2)):
                t += self.subprogram(True) + ["\n", "\n"]
            for _ in range(self.r.choice([0, 1])):
                t += [self.kw("constant"), self.uid("c_"), ":", "integer", ":=", "3", ";", "\n"]
            t += [self.kw("end")] + ([self.kw("package"), self.kw("body")] if self.chance(0.6) else []) + ([nm] if self.chance(0.6) else []) + [";", "\n", "\n"]
        return t

    def design(self):
        t = ["\n"] if self.chance(0.3) else []
        for _ in range(self.r.choice([1, 1, 2])):
            r = self.r.random()
            if r < 0.7:
                ent = self.uid("ent_")
                if self.chance(0.8):
                    t += self.entity(ent)
                t += self.architecture(ent)
            else:
                t += self.package()
        return t


TIGHT_BEFORE = {";", ",", ")", "'", "."}
TIGHT_AFTER = {"(", "'", "."}


def render(tokens, rnd, indent=2):
    """token list -> text: conventional spacing with random tight/loose choices around punctuation"""
    out = []
    line = []
    depth = 0
    prev = None
    for t in tokens:
        if t == "\n":
            out.append((" " * (indent * max(depth, 0)) if line else "") + "".join(line).rstrip())
            line = []
            prev = None
            continue
        if prev is not None:
            tight = False
            if t in TIGHT_BEFORE or prev in TIGHT_AFTER:
                tight = rnd.random() < 0.85
            elif t == "(" and prev not in (":", "=", "<=", ":=", "=>", ",") and (prev[0].isalnum() or prev[0] == "_"):
                # call / index: usually tight; after reserved words such as 'if', 'port', 'map' usually loose
                tight = rnd.random() < (0.15 if prev.lower() in ("if", "elsif", "while", "port", "generic", "map", "process", "is", "when", "and", "or", "not", "report", "assert", "until", "of", "return", "array", "xor", "nand", "mod") else 0.85)
            elif prev == "-" and t == "-":
                tight = False
            elif t in ("-", "+", "*", "/", "&", "=", "<", ">", "**") or prev in ("-", "+", "*", "/", "&", "**"):
                tight = rnd.random() < 0.2
            if prev == "-" and t.startswith("-"):
                tight = False
            if prev == "'" or t == "'" or prev == "." or t == ".":
                tight = True
            line.append("" if tight else " ")
        line.append(t)
        prev = t
    if line:
        out.append("".join(line).rstrip())
    return "\n".join(out)


def gen_design(rnd, size=None):
    g = G(rnd, size if size is not None else rnd.choice([1, 2, 3, 4]))
    return render(g.design(), rnd)
