"""D2: meaning-preserving re-layout of VHDL text (whitespace, line breaks, comments, case).

Only gaps that already contain whitespace are touched, so token boundaries never move.
All randomness comes from the random.Random handed in (seeded from a Hypothesis draw).
"""
import collections

from harness import lexer

LEVELS = {
    0: dict(),
    1: dict(ws=0.5, case=0.4, trail=0.05),
    2: dict(ws=0.4, case=0.3, split=0.12, join=0.25, blank=0.08, trail=0.05),
    3: dict(ws=0.3, case=0.2, split=0.10, join=0.20, blank=0.05, cmt_eol=0.15, cmt_own=0.10, trail=0.03),
    4: dict(ws=0.3, case=0.2, split=0.10, join=0.15, blank=0.05, cmt_eol=0.12, cmt_own=0.08, cmt_split=0.10, trail=0.03, pre_own=0.02),
}
FAMILIES = ("ws", "case", "split", "join", "blank", "cmt_eol", "cmt_own", "cmt_split", "trail", "pre_own")


def _hws(rnd, tabs):
    n = rnd.randint(1, 5)
    if tabs and rnd.random() < 0.15:
        return "\t" * rnd.randint(1, 2)
    return " " * n


def _indent(rnd, tabs):
    if tabs and rnd.random() < 0.1:
        return "\t" * rnd.randint(0, 3)
    return " " * rnd.randint(0, 8)


def apply_edits(text, edits, atoms=None):
    """edits: list of [atom_index, "gap"|"val", new_string]; gap = the text between atom i-1 and atom i"""
    atoms = atoms if atoms is not None else lexer.lex(text)
    gaps = {}
    vals = {}
    for i, k, v in edits:
        (gaps if k == "gap" else vals)[i] = v
    res = []
    prev_end = 0
    for idx, a in enumerate(atoms):
        res.append(gaps.get(idx, text[prev_end : a.start]))
        res.append(vals.get(idx, a.value))
        prev_end = a.end
    res.append(text[prev_end:])
    return "".join(res)


def relayout(text, rnd, probs, tabs=False, structural_ok=True, tag="c"):
    """returns (new_text, Counter of operations performed, edits)"""
    atoms = lexer.lex(text)
    edits = []
    p = lambda k: probs.get(k, 0.0)  # noqa: E731
    if not structural_ok:
        probs = {k: v for k, v in probs.items() if k in ("ws", "case", "trail")}
    res = []
    prev_end = 0
    prev = None
    ops = collections.Counter()
    for idx, a in enumerate(atoms):
        gap = text[prev_end : a.start]
        new = gap
        if idx > 0 and gap != "":
            r = rnd.random()
            prev_c = prev.kind in ("comment", "pre", "dcomment")
            cur_c = a.kind in ("comment", "pre", "dcomment")
            if "\n" not in gap:
                if a.kind == "comment" and not prev_c:
                    if r < p("ws"):
                        new = _hws(rnd, tabs)
                        ops["ws"] += 1
                elif prev_c or cur_c:
                    pass
                elif r < p("split"):
                    new = "\n" + _indent(rnd, tabs)
                    ops["split"] += 1
                elif r < p("split") + p("cmt_split"):
                    new = " -- %s%d\n" % (tag, idx) + _indent(rnd, tabs)
                    ops["cmt_split"] += 1
                elif r < p("split") + p("cmt_split") + p("ws"):
                    new = _hws(rnd, tabs)
                    ops["ws"] += 1
            else:
                first_nl = gap.find("\n")
                last_nl = gap.rfind("\n")
                head, mid, tail = gap[:first_nl], gap[first_nl : last_nl + 1], gap[last_nl + 1 :]
                if a.kind == "pre" or prev.kind == "pre" or a.kind == "dcomment" or prev.kind == "dcomment":
                    pass
                elif prev.kind == "comment":
                    # keep the line structure after a comment; indentation, blank lines and own-line comments only
                    if r < p("cmt_own"):
                        new = head + mid + _indent(rnd, tabs) + "-- %s%d\n" % (tag, idx) + _indent(rnd, tabs)
                        ops["cmt_own"] += 1
                    elif r < p("cmt_own") + p("blank"):
                        new = head + mid + "\n" + tail
                        ops["blank"] += 1
                    elif r < p("cmt_own") + p("blank") + p("ws"):
                        new = head + mid + _indent(rnd, tabs)
                        ops["indent"] += 1
                elif r < p("join") and a.kind != "comment":
                    new = _hws(rnd, tabs)
                    ops["join"] += 1
                elif r < p("join") + p("cmt_eol"):
                    new = " " * rnd.randint(1 if prev.value.endswith("-") else 0, 3) + "-- %s%d" % (tag, idx) + mid + tail
                    ops["cmt_eol"] += 1
                elif r < p("join") + p("cmt_eol") + p("cmt_own"):
                    new = head + mid + _indent(rnd, tabs) + "-- %s%d\n" % (tag, idx) + _indent(rnd, tabs)
                    ops["cmt_own"] += 1
                elif r < p("join") + p("cmt_eol") + p("cmt_own") + p("pre_own"):
                    # an own-line preprocessor directive (opaque to VSG, must survive like a comment)
                    new = head + mid + rnd.choice(["#ifdef SIM_%d", "#endif // %d", "#define X%d 1", " #if defined(Y%d)"]) % idx + "\n" + _indent(rnd, tabs)
                    ops["pre_own"] += 1
                elif r < p("join") + p("cmt_eol") + p("cmt_own") + p("pre_own") + p("blank"):
                    if mid.count("\n") > 1 and rnd.random() < 0.5:
                        new = head + "\n" + tail
                        ops["unblank"] += 1
                    else:
                        new = head + mid + "\n" * rnd.randint(1, 2) + tail
                        ops["blank"] += 1
                elif r < p("join") + p("cmt_eol") + p("cmt_own") + p("pre_own") + p("blank") + p("trail"):
                    new = head + " " * rnd.randint(1, 3) + mid + tail
                    ops["trail"] += 1
                elif r < p("join") + p("cmt_eol") + p("cmt_own") + p("pre_own") + p("blank") + p("trail") + p("ws"):
                    new = head + mid + _indent(rnd, tabs)
                    ops["indent"] += 1
        res.append(new)
        if new != gap:
            edits.append([idx, "gap", new])
        v = a.value
        if a.kind == "id" and p("case") > 0:
            r = rnd.random()
            if r < p("case"):
                q = rnd.random()
                if q < 0.4:
                    v = v.upper()
                elif q < 0.8:
                    v = v.lower()
                else:
                    v = v.capitalize()
                if v != a.value:
                    ops["case"] += 1
        res.append(v)
        if v != a.value:
            edits.append([idx, "val", v])
        prev_end = a.end
        prev = a
    res.append(text[prev_end:])
    return "".join(res), ops, edits


def self_check(old, new):
    """the transformation must keep the code-atom sequence (case-folded); else harness error"""
    return lexer.code_atoms(old) == lexer.code_atoms(new)
