"""D4: near-valid inputs - token-level mutations of valid VHDL (for C19b)."""
from harness import lexer

KEYWORDS = ["is", "begin", "end", "then", "else", "process", "entity", "of", "port", "map", "generate", "loop", "when", "select", "with", "function", "return", "record", "case", "if"]
DELIMS = [";", ":", "(", ")", ",", ":=", "<=", "=>", "'", "\"", "."]


def mutate(text, rnd, n=None):
    atoms = [a for a in lexer.lex(text)]
    code_idx = [i for i, a in enumerate(atoms) if a.kind not in lexer.COMMENT_KINDS]
    if not code_idx:
        return text, []
    n = n or rnd.choice([1, 1, 1, 2, 3])
    ops = []
    edits = {}
    trunc = None
    for _ in range(n):
        i = rnd.choice(code_idx)
        a = atoms[i]
        op = rnd.choice(["delete", "delete", "duplicate", "swap", "keyword", "delim", "truncate", "unbalance", "unterminated"])
        if op == "delete":
            edits[i] = ""
        elif op == "duplicate":
            edits[i] = a.value + " " + a.value
        elif op == "swap":
            j = code_idx[min(code_idx.index(i) + 1, len(code_idx) - 1)]
            if j != i:
                edits[i], edits[j] = atoms[j].value, a.value
        elif op == "keyword":
            edits[i] = rnd.choice(KEYWORDS)
        elif op == "delim":
            edits[i] = rnd.choice(DELIMS)
        elif op == "truncate":
            trunc = a.start
        elif op == "unbalance":
            par = [k for k in code_idx if atoms[k].value in ("(", ")")]
            if par:
                edits[rnd.choice(par)] = ""
        elif op == "unterminated":
            strs = [k for k in code_idx if atoms[k].kind == "str"]
            if strs:
                k = rnd.choice(strs)
                edits[k] = atoms[k].value[:-1]
        ops.append(op)
    out = []
    prev = 0
    for i, a in enumerate(atoms):
        if trunc is not None and a.start >= trunc:
            break
        out.append(text[prev : a.start])
        out.append(edits.get(i, a.value))
        prev = a.end
    else:
        out.append(text[prev:])
    return "".join(out), ops
