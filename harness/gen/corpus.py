"""D1: the repository's own VHDL fixtures, read at run time from the working tree."""
import glob
import os

from harness import vsgapi

_FILES = None
UNSUITABLE_MARKS = ("vhdl_comp_off", "vsg_", "synthesis", "pragma", "translate", "/*", "rtl_synthesis", "synopsys", "xilinx", "altera")


def files():
    """sorted list of fixture paths relative to the repo root"""
    global _FILES
    if _FILES is None:
        root = os.path.join(vsgapi.REPO, "tests")
        fs = glob.glob(os.path.join(root, "**", "*.vhd"), recursive=True)
        fs += glob.glob(os.path.join(vsgapi.VERIF, "corpus_extra", "*.vhd"))
        _FILES = sorted(os.path.relpath(f, vsgapi.REPO) if f.startswith(vsgapi.REPO) else f for f in fs)
        bad = set()
        ex = os.path.join(vsgapi.VERIF, "tables", "invalid_fixtures.txt")
        marks = []
        for l in open(ex):
            l = l.split("#")[0].strip()
            if l.startswith("content:"):
                marks.append(l[len("content:") :].strip())
            elif l:
                bad.add(l)
        _FILES = [f for f in _FILES if f not in bad]
        if marks:
            keep = []
            for f in _FILES:
                try:
                    t = open(path(f), encoding="latin-1").read()
                except OSError:
                    continue
                if not any(m in t for m in marks):
                    keep.append(f)
            _FILES = keep
    return _FILES


def path(rel):
    return rel if os.path.isabs(rel) else os.path.join(vsgapi.REPO, rel)


_TEXT = {}


def lines(rel):
    if rel.startswith("design:"):
        # D3: grammar-generated design, a pure function of the number after the colon
        import random

        from harness.gen import designs

        if rel not in _TEXT:
            if len(_TEXT) > 6000:
                _TEXT.clear()
            _TEXT[rel] = designs.gen_design(random.Random(int(rel.split(":")[1]))).split("\n")
        return list(_TEXT[rel])
    if rel not in _TEXT:
        _TEXT[rel] = vsgapi.read_file(path(rel))
    return list(_TEXT[rel])


def text(rel):
    return "\n".join(lines(rel))


def structurally_sensitive(txt):
    """files whose comments carry meaning for VSG (pragmas, code tags, comp_off regions, delimited
    comments, preprocessor lines): only whitespace/case re-layout is sound for them"""
    t = txt.lower()
    if any(m in t for m in UNSUITABLE_MARKS):
        return True
    for l in txt.split("\n"):
        if l.lstrip().startswith("#"):
            return True
    return False


def small_files(max_lines):
    return [f for f in files() if len(lines(f)) <= max_lines]
