"""Docs-derived tables used by the oracles (hand-reviewed; see DESIGN.md Appendix B)."""
import json
import os

VERIF = os.path.dirname(os.path.dirname(os.path.abspath(__file__)))
_C = None


def _load():
    global _C
    if _C is None:
        _C = json.load(open(os.path.join(VERIF, "tables", "comment_allowlist.json")))
    return _C


def comment_remover_allowed(rid, rule):
    """rules whose documented purpose includes removing comments (C02)"""
    t = _load()
    if rid in t["always"]:
        return True
    if rid in t["when_assign_on_single_line"]:
        # array-structure rules collapse an aggregate onto one line only when so configured
        for opt in ("first_paren_new_line", "assign_on_single_line"):
            pass
        return str(getattr(rule, "assign_on_single_line", "")).lower() in ("yes", "true") or getattr(rule, "assign_on_single_line", None) is True
    return False


def comment_ws_normaliser(rid, rule):
    """rules documented to normalise whitespace inside/at the start of comments (space after --, tab replacement)"""
    t = _load()
    if rid in t["whitespace_normalisers"]:
        return True
    g = set(getattr(rule, "groups", ()) or ())
    return False


def trailing_only_removers():
    return set(_load()["always"])
