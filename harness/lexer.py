"""Independent VHDL-2008 lexer used as the oracle for "code atom", "comment", "literal".

Shares no code with vsg/tokens.py.  Yields Atom(kind, value, start, end, line):
  comment   -- ... to end of line (value excludes the line break)
  dcomment  /* ... */ (may span lines)
  pre       preprocessor line (first non-blank char of the line is '#')
  str       "..." with doubled quotes
  extid     \...\ with doubled backslashes
  char      'x'
  id        basic identifier / reserved word
  num       abstract literal (decimal, based, with exponent)
  bitstr    bit string literal
  delim     delimiter (1..3 chars)
  junk      an abstract literal immediately followed by letters (e.g. the fusion "1ns")
"""
import re
from collections import namedtuple

Atom = namedtuple("Atom", "kind value start end line")

IDENT = re.compile(r"[A-Za-z][A-Za-z0-9_]*")
NUM = re.compile(r"\d[\d_]*(?:#[0-9A-Za-z_.]+#|(?:\.\d[\d_]*)?)(?:[eE][+-]?\d[\d_]*)?")
BITSTR = re.compile(r'(?:\d+)?(?:[sSuU]?[bBoOxX]|[dD])"(?:[^"\n]|"")*"')
DELIMS3 = ("?/=", "?<=", "?>=")
DELIMS2 = ("=>", "**", ":=", "/=", ">=", "<=", "<>", "??", "?=", "?<", "?>", "<<", ">>")
HSPACE = " \t\r\f\v\xa0"
COMMENT_KINDS = ("comment", "dcomment", "pre")
EXACT_KINDS = ("str", "char", "extid")

# reserved words after which a tick starts a character literal rather than an attribute
KEYWORDS_BEFORE_CHAR = frozenset(
    """when is return and or xor nand nor xnor not to downto then else select report severity after
    if elsif case until while in mod rem abs sll srl sla sra rol ror generate assert wait for on loop
    null of with others open range begin inout out buffer linkage""".split()
)


def lex(text):
    out = []
    i = 0
    n = len(text)
    line = 1
    prev_kind = None
    prev_val = None
    at_line_start = True
    while i < n:
        c = text[i]
        if c == "\n":
            line += 1
            i += 1
            at_line_start = True
            continue
        if c in HSPACE:
            i += 1
            continue
        if text.startswith("--", i):
            j = text.find("\n", i)
            j = n if j < 0 else j
            v = text[i:j]
            if v.endswith("\r"):
                v = v[:-1]
            out.append(Atom("comment", v, i, i + len(v), line))
            i = j
            continue
        if text.startswith("/*", i):
            j = text.find("*/", i + 2)
            j = n if j < 0 else j + 2
            v = text[i:j]
            out.append(Atom("dcomment", v, i, j, line))
            line += v.count("\n")
            i = j
            at_line_start = False
            continue
        if c == "#" and at_line_start:
            j = text.find("\n", i)
            j = n if j < 0 else j
            v = text[i:j]
            out.append(Atom("pre", v, i, j, line))
            i = j
            continue
        at_line_start = False
        s = i
        if c == '"':
            j = i + 1
            while j < n:
                if text[j] == '"':
                    if j + 1 < n and text[j + 1] == '"':
                        j += 2
                        continue
                    break
                if text[j] == "\n":
                    j -= 1
                    break
                j += 1
            j = min(j, n - 1)
            kind, i = "str", j + 1
        elif c == "\\":
            j = i + 1
            while j < n:
                if text[j] == "\\":
                    if j + 1 < n and text[j + 1] == "\\":
                        j += 2
                        continue
                    break
                if text[j] == "\n":
                    j -= 1
                    break
                j += 1
            j = min(j, n - 1)
            kind, i = "extid", j + 1
        elif c == "'":
            is_char = False
            if i + 2 < n and text[i + 2] == "'" and text[i + 1] != "\n":
                if prev_kind == "id" and prev_val.lower() in KEYWORDS_BEFORE_CHAR:
                    is_char = True
                elif prev_kind in ("id", "extid", "char", "str") or prev_val in (")", "]"):
                    is_char = False
                else:
                    is_char = True
            if is_char:
                kind, i = "char", i + 3
            else:
                kind, i = "delim", i + 1
        else:
            m = BITSTR.match(text, i)
            if m:
                kind, i = "bitstr", m.end()
            else:
                m = IDENT.match(text, i)
                if m:
                    kind, i = "id", m.end()
                else:
                    m = NUM.match(text, i)
                    if m:
                        kind, i = "num", m.end()
                        if i < n and (text[i].isalpha() or text[i] == "_"):
                            m2 = re.compile(r"[A-Za-z0-9_]+").match(text, i)
                            kind, i = "junk", m2.end()
                    else:
                        for d in DELIMS3:
                            if text.startswith(d, i):
                                kind, i = "delim", i + 3
                                break
                        else:
                            for d in DELIMS2:
                                if text.startswith(d, i):
                                    kind, i = "delim", i + 2
                                    break
                            else:
                                kind, i = "delim", i + 1
        v = text[s:i]
        out.append(Atom(kind, v, s, i, line))
        prev_kind, prev_val = kind, v
    return out


def norm(a):
    """meaning-normalised value of a code atom (C01): literals exact, the rest case-folded"""
    if a.kind in EXACT_KINDS:
        return a.value
    return a.value.lower()


def code_atoms(text, atoms=None):
    return [norm(a) for a in (atoms if atoms is not None else lex(text)) if a.kind not in COMMENT_KINDS]


def code_atoms_exact(text, atoms=None):
    return [a.value for a in (atoms if atoms is not None else lex(text)) if a.kind not in COMMENT_KINDS]


def comment_atoms(text, atoms=None):
    return [(a.kind, a.value) for a in (atoms if atoms is not None else lex(text)) if a.kind in COMMENT_KINDS]
