"""Fault injector for the SIGKILL part of C16. Activated only when VERIF_KILL is set (by the harness, in a subprocess):
VERIF_KILL = "<point>:<when>[:<n>]"   point in stat|open|write|close|chmod|replace|remove|copy2 ; when in before|after|partial
VERIF_KILL_PATH = target VHDL file.  The process kills itself with SIGKILL at the n-th matching call (default 1)."""
import os
import signal
import sys

_spec = os.environ.get("VERIF_KILL")
if _spec:
    import builtins
    import shutil

    _target = os.environ.get("VERIF_KILL_PATH", "")
    _p = _spec.split(":")
    _point, _when = _p[0], _p[1]
    _n = int(_p[2]) if len(_p) > 2 else 1
    _count = [0]

    def _die():
        sys.stdout.flush()
        os.kill(os.getpid(), signal.SIGKILL)

    def _match(path):
        try:
            s = os.fspath(path)
        except TypeError:
            return False
        return s == _target or s == _target + ".tmp" or s == _target + ".bak"

    def _wrap(mod, name, point, argpos=(0,)):
        real = getattr(mod, name)

        def f(*a, **k):
            hit = _point == point and any(i < len(a) and _match(a[i]) for i in argpos)
            if hit:
                _count[0] += 1
                if _count[0] == _n and _when == "before":
                    _die()
            r = real(*a, **k)
            if hit and _count[0] == _n and _when == "after":
                _die()
            return r

        setattr(mod, name, f)

    _wrap(os, "stat", "stat")
    _wrap(os, "chmod", "chmod")
    _wrap(os, "replace", "replace", (0, 1))
    _wrap(os, "remove", "remove")
    _wrap(shutil, "copy2", "copy2", (0, 1))

    _real_open = builtins.open

    class _F:
        def __init__(self, real):
            self._r = real
            self._w = 0

        def write(self, s):
            if _point == "write":
                self._w += 1
                if self._w == _n:
                    if _when == "before":
                        _die()
                    if _when == "partial":
                        self._r.write(s[: len(s) // 2])
                        self._r.flush()
                        _die()
                    r = self._r.write(s)
                    self._r.flush()
                    if _when == "after":
                        _die()
                    return r
            return self._r.write(s)

        def __enter__(self):
            return self

        def __exit__(self, *a):
            if _point == "close" and _when == "before":
                _die()
            self._r.close()
            if _point == "close" and _when == "after":
                _die()
            return False

        def __getattr__(self, k):
            return getattr(self._r, k)

    def _open(file, mode="r", *a, **k):
        if isinstance(file, str) and file == _target + ".tmp" and "w" in mode:
            if _point == "open" and _when == "before":
                _die()
            r = _real_open(file, mode, *a, **k)
            if _point == "open" and _when == "after":
                _die()
            return _F(r)
        return _real_open(file, mode, *a, **k)

    builtins.open = _open
