"""Monitored fix engine: drives the real rule_list.fix() and observes every rule application.

Observation is done by wrapping (never replacing) methods of the vsg package at run time:
Rule.fix / analyze / _get_tokens_of_interest of every class in every rule's MRO, and vhdlFile.update.
The originals always run, with their original arguments, driven by the real rule_list.fix().

run(text, style, conf, props) -> observation dict with per-property failure lists.
"""
import re
import time

from harness import atoms, lexer, vsgapi

VF = vsgapi.VF
parser = vsgapi.parser
exceptions = vsgapi.exceptions
severity = vsgapi.severity

ALL_PROPS = ("C01", "C02", "C03", "C07", "C08", "C09", "C10", "C18", "C19")

RESERVED = frozenset(
    """abs access after alias all and architecture array assert assume assume_guarantee attribute begin block body buffer bus case
    component configuration constant context cover default disconnect downto else elsif end entity exit fairness file for force function
    generate generic group guarded if impure in inertial inout is label library linkage literal loop map mod nand new next nor not null of
    on open or others out package parameter port postponed procedure process property protected pure range record register reject release
    rem report restrict restrict_guarantee return rol ror select sequence severity shared signal sla sll sra srl strong subtype then to
    transport type unaffected units until use variable vmode vprop vunit wait when while with xnor xor view private""".split()
)


class _Mon:
    def __init__(self):
        self.installed = False
        self.active = False
        self.depth = 0
        self.props = ()
        self.reset(())

    def reset(self, props):
        self.props = tuple(props)
        self.active = False
        self.depth = 0
        self.fail = {p: [] for p in ALL_PROPS}
        self.cur = None
        self.last_text = None
        self.last_lex = (None, None)
        self.fired = {}
        self.allow_fired = False
        self.corrupt = False
        self.labels = {}
        self.fp = None
        self.crprefix = None
        self.token_count_changed = False
        self.c18_after_change = 0
        self.c18_checks = 0
        self.c10_probes = 0
        self.c07_checked = 0
        self.snap_phase = {}
        self.fix_calls = []
        self.fix_phases = []
        self.update_log = []
        self.prov = {}
        self.known_ids = None
        self.keep = []
        self.phase_start_lines = {}
        self.skip_c10 = False


MON = _Mon()


def _lex(text):
    if MON.last_lex[0] == text:
        return MON.last_lex[1]
    a = lexer.lex(text)
    MON.last_lex = (text, a)
    return a


SITE_PROPS = ("C01", "C02", "C03", "C07", "C09", "C10")


def _add(prop, sig, detail):
    if prop in MON.props:
        if "rule" in sig and prop in SITE_PROPS:
            sig = dict(sig)
            detail = dict(detail or {})
            detail.setdefault("rule", sig["rule"])
            sig["site"] = site_of_id(sig.pop("rule"))
        MON.fail[prop].append({"sig": sig, "detail": detail})


def _squeeze(s):
    return re.sub(r"\s+", "", s)


_SITE = {}


def site_of(rule, rid=None):
    """call site of a rule's fix: the module of the class that implements _fix_violation for it (most rules share
    one of ~80 base-class implementations); pseudo steps keep their own name"""
    if rule is None:
        return rid
    key = type(rule)
    if key not in _SITE:
        st = rule.unique_id
        for c in type(rule).__mro__:
            if "_fix_violation" in c.__dict__ or ("fix" in c.__dict__ and c.__module__ != "vsg.rule"):
                st = c.__module__.replace("vsg.rules.", "").replace("vsg.", "")
                break
        _SITE[key] = st
    return _SITE[key]


_RULE_SITE = {}


def site_of_id(rid):
    if not _RULE_SITE:
        for r in vsgapi.rule_list.load_rules():
            _RULE_SITE[r.unique_id] = site_of(r)
    return _RULE_SITE.get(rid, rid)


# ------------------------------------------------------------------------------------------
# per-application analysis
# ------------------------------------------------------------------------------------------
def _comment_norm(v):
    return v.rstrip()


def analyse_application(rule, rid, before, after, reported, pseudo=False):
    """rule may be None for pseudo steps (between rules / write-out)"""
    MON.fired[rid] = MON.fired.get(rid, 0) + 1
    if MON.corrupt:
        # an earlier application of this run already corrupted code or comments (reported there): what later rules do to the
        # corrupted text is not evaluated (counted), so one defect does not surface under many rule names
        MON.labels["applications_not_evaluated_after_corruption"] = MON.labels.get("applications_not_evaluated_after_corruption", 0) + 1
        return
    la = _lex(before)
    lb = lexer.lex(after)
    MON.last_lex = (after, lb)
    ca = [x for x in la if x.kind not in lexer.COMMENT_KINDS]
    cb = [x for x in lb if x.kind not in lexer.COMMENT_KINDS]
    ka = [(x.kind, _comment_norm(x.value)) for x in la if x.kind in lexer.COMMENT_KINDS]
    kb = [(x.kind, _comment_norm(x.value)) for x in lb if x.kind in lexer.COMMENT_KINDS]
    code_lines = set(x.line for x in la if x.kind not in lexer.COMMENT_KINDS)
    trailing_a = [x.line in code_lines and x.kind == "comment" for x in la if x.kind in lexer.COMMENT_KINDS]
    groups = tuple(getattr(rule, "groups", ())) if rule is not None else ()
    phase = getattr(rule, "phase", None)

    # ---- C01
    r = atoms.classify_c01(rid, ca, cb)
    if rid in atoms.allowlist():
        MON.allow_fired = True
    code_bad = r is not None
    if r is not None:
        kind, det = r
        det = dict(det, rule=rid)
        _add("C01", {"site": site_of(rule, rid), "kind": kind}, det)
        MON.corrupt = True

    # ---- C02
    if ka != kb:
        kind, det = _classify_comments(rid, ka, kb, rule, trailing_a)
        if kind is not None:
            det = dict(det, rule=rid)
            _add("C02", {"site": site_of(rule, rid), "kind": kind}, det)
            MON.corrupt = True

    # ---- C03
    if rule is not None:
        _c03(rule, rid, groups, before, after, ca, cb, ka, kb, la, lb)

    # ---- C07
    if rule is not None and reported is not None and _line_local(groups):
        _c07(rule, rid, before, after, reported)


def _classify_comments(rid, ka, kb, rule, trailing_a=None):
    from harness import tables

    norm_a = [(k, _ws_norm_comment(v)) for k, v in ka]
    norm_b = [(k, _ws_norm_comment(v)) for k, v in kb]
    if norm_a == norm_b:
        # only whitespace inside comments differs: documented for comment/whitespace rules (space after --, tabs)
        if tables.comment_ws_normaliser(rid, rule):
            return None, None
        return "comment_whitespace_changed", {"before": [v for v, w in zip(ka, kb) if v != w][:2], "after": [w for v, w in zip(ka, kb) if v != w][:2]}
    if len(kb) < len(ka):
        removed = _multiset_diff(norm_a, norm_b)
        if tables.comment_remover_allowed(rid, rule) and _is_subsequence(norm_b, norm_a):
            # the documented removers only drop comments at the end of a code line (component_019 / port_map_010) or inside
            # the aggregate they collapse; an own-line comment must survive the former
            if rid in tables.trailing_only_removers() and trailing_a is not None:
                own_line_lost = [x for x, t in zip(norm_a, trailing_a) if not t]
                own_line_left = [x for x in norm_b]
                if not _is_subsequence(own_line_lost, own_line_left):
                    return "own_line_comment_lost", {"lost": _multiset_diff(own_line_lost, own_line_left)[:3]}
            return None, None
        return "comment_lost", {"lost": removed[:3], "n": (len(ka), len(kb))}
    if len(kb) > len(ka):
        return "comment_gained", {"gained": _multiset_diff(norm_b, norm_a)[:3], "n": (len(ka), len(kb))}
    if sorted(norm_a) == sorted(norm_b):
        return "comment_reordered", {"before": [v for v, w in zip(norm_a, norm_b) if v != w][:2], "after": [w for v, w in zip(norm_a, norm_b) if v != w][:2]}
    return "comment_text_changed", {"before": [v for v, w in zip(norm_a, norm_b) if v != w][:2], "after": [w for v, w in zip(norm_a, norm_b) if v != w][:2]}


def _ws_norm_comment(v):
    # text of a comment with all whitespace removed (only whitespace normalisation is documented for comment rules)
    return re.sub(r"\s+", "", v)


def _multiset_diff(a, b):
    import collections

    c = collections.Counter(b)
    out = []
    for x in a:
        if c[x] > 0:
            c[x] -= 1
        else:
            out.append(x)
    return out


def _is_subsequence(small, big):
    it = iter(big)
    return all(any(x == y for y in it) for x in small)


def _line_local(groups):
    g = set(groups)
    if "structure" in g or "blank_line" in g:
        return False
    return bool(g & {"whitespace", "indent", "alignment", "case"})


def _c03(rule, rid, groups, before, after, ca, cb, ka, kb, la, lb):
    g = set(groups)
    sig = lambda kind: {"site": site_of(rule, rid), "kind": kind}  # noqa: E731
    never = (not rule.fixable) or rule.disable or rule.severity.type != severity.error_type or "naming" in g or "length" in g
    if never:
        why = "unfixable" if not rule.fixable else "disabled" if rule.disable else "warning_severity" if rule.severity.type != severity.error_type else "naming_or_length"
        _add("C03", sig("never_change_rule_changed_file:" + why), {"first_diff": _first_line_diff(before, after)})
        return
    if "structure" in g:
        return
    if g & {"whitespace", "blank_line", "indent", "alignment"}:
        ea = [x.value for x in ca]
        eb = [x.value for x in cb]
        if ea != eb:
            _add("C03", sig("layout_rule_changed_code"), atoms.first_difference(ea, eb))
        sa = [_squeeze(v) for k, v in ka]
        sb = [_squeeze(v) for k, v in kb]
        if sa != sb:
            _add("C03", sig("layout_rule_changed_comment"), {"before": [v for v in sa if v not in sb][:2], "after": [v for v in sb if v not in sa][:2]})
        if "blank_line" not in g and before.count("\n") != after.count("\n"):
            _add("C03", sig("line_count_changed"), {"n": (before.count("\n"), after.count("\n"))})
        if "blank_line" in g:
            # a blank-line rule may only add or remove blank lines: the non-blank lines stay as they are (modulo trailing blanks)
            nb_a = [l.rstrip() for l in before.split("\n") if l.strip()]
            nb_b = [l.rstrip() for l in after.split("\n") if l.strip()]
            if nb_a != nb_b:
                _add("C03", sig("blank_line_rule_changed_nonblank_line"), {"first_diff": _first_list_diff(nb_a, nb_b)})
        return
    if "case" in g:
        bl = before.split("\n")
        al = after.split("\n")
        if [len(x) for x in bl] != [len(x) for x in al]:
            _add("C03", sig("case_rule_changed_line_length"), {"first_diff": _first_line_diff(before, after)})
            return
        if before.lower() != after.lower():
            _add("C03", sig("case_rule_changed_more_than_case"), {"first_diff": _first_line_diff(before, after)})
            return
        # every changed character must lie inside an identifier/keyword atom (same spans before and after)
        bad = None
        kinds = set()
        for x, y in zip(la, lb):
            if x.value != y.value:
                if x.kind not in ("id", "junk") or y.kind not in ("id", "junk"):
                    # bit-string literals and based/abstract literals are documented case targets of dedicated rules
                    if x.kind in ("bitstr", "num") and y.kind == x.kind and rid.split("_")[0] in ("bit", "exponent", "based"):
                        continue
                    bad = (x.kind, x.value, y.value)
                    break
                kinds.add("kw" if x.value.lower() in RESERVED else "name")
        if bad:
            _add("C03", sig("case_rule_touched_" + ("literal" if bad[0] in ("char", "str", "extid", "bitstr", "num") else "comment" if bad[0] in lexer.COMMENT_KINDS else bad[0])), {"atom": bad})
            return


def _first_line_diff(before, after):
    return _first_list_diff(before.split("\n"), after.split("\n"))


def _first_list_diff(a, b):
    for i, (x, y) in enumerate(zip(a, b)):
        if x != y:
            return {"line": i + 1, "before": x[:160], "after": y[:160]}
    return {"line": min(len(a), len(b)) + 1, "before": (a[len(b) : len(b) + 1] or [""])[0][:160], "after": (b[len(a) : len(a) + 1] or [""])[0][:160], "n": (len(a), len(b))}


def _c07(rule, rid, before, after, reported):
    bl = before.split("\n")
    al = after.split("\n")
    MON.c07_checked += 1
    rep = set(reported)
    if len(bl) != len(al):
        _add("C07", {"rule": rid, "kind": "line_count_changed"}, {"n": (len(bl), len(al))})
        return
    changed = {i + 1 for i, (x, y) in enumerate(zip(bl, al)) if x != y}
    extra = sorted(changed - rep)
    missing = sorted(rep - changed)
    if extra:
        i = extra[0]
        _add("C07", {"rule": rid, "kind": "changed_unreported_line"}, {"line": i, "before": bl[i - 1][:160], "after": al[i - 1][:160], "reported": sorted(rep)[:10], "changed": sorted(changed)[:10]})
    if missing:
        i = missing[0]
        _add("C07", {"rule": rid, "kind": "reported_line_not_changed"}, {"line": i, "text": bl[i - 1][:160] if 0 < i <= len(bl) else None, "reported": sorted(rep)[:10], "changed": sorted(changed)[:10]})
    if len(changed) and len(bl) > len(changed):
        MON.labels["c07_nontrivial"] = MON.labels.get("c07_nontrivial", 0) + 1


# ------------------------------------------------------------------------------------------
# wrappers
# ------------------------------------------------------------------------------------------
def _model_text(oFile):
    return "".join([o.value for o in oFile.lAllObjects])


def _wrap_fix(orig):
    def fix(self, oFile, dFixOnly=None):
        if not MON.active or MON.depth > 0:
            return orig(self, oFile, dFixOnly)
        MON.depth = 1
        rid = self.unique_id
        try:
            before = _model_text(oFile)
            n_before = len(oFile.lAllObjects)
            if MON.last_text is not None and before != MON.last_text:
                analyse_application(None, "between_rules(before:%s)" % rid if False else "rule_list_cleanup", MON.last_text, before, None)
            ev = {"rule": rid, "reported": None, "updates": 0}
            MON.cur = ev
            MON.fix_calls.append(rid)
            MON.fix_phases.append((rid, self.phase))
            if "C13" in MON.props and self.phase not in MON.phase_start_lines:
                MON.phase_start_lines[self.phase] = oFile.get_lines()[1:]
            if self.disable or self.severity.type != severity.error_type:
                _add("C03", {"rule": rid, "kind": "fix_entered_for_disabled_or_warning_rule"}, {})
            try:
                orig(self, oFile, dFixOnly)
            except Exception as e:
                ev["exc"] = e
                raise
            after = _model_text(oFile)
            if len(oFile.lAllObjects) != n_before:
                MON.token_count_changed = True
            if "C08" in MON.props:
                _provenance(oFile, rid)
            if before != after:
                analyse_application(self, rid, before, after, ev["reported"])
                if "C10" in MON.props and not MON.skip_c10:
                    _c10_probe(self, orig, oFile, dFixOnly, rid, after)
                    after = _model_text(oFile)
            elif ev["reported"] is not None and "C07" in MON.props:
                nl = before.count("\n")
                for ln in ev["reported"]:
                    if not (isinstance(ln, int) and 1 <= ln <= nl):
                        _add("C07", {"rule": rid, "kind": "reported_line_out_of_range"}, {"line": ln, "lines_in_file": nl})
                        break
            MON.last_text = after
            MON.snap_phase[self.phase] = after
        finally:
            MON.depth = 0
            MON.cur = None

    fix._verif_wrapped = True
    return fix


def _provenance(oFile, rid):
    """remember which rule application created each token object (for C08 signatures)"""
    objs = oFile.lAllObjects
    if MON.known_ids is None:
        MON.known_ids = set()
    new = [o for o in objs if id(o) not in MON.known_ids]
    for o in new:
        MON.known_ids.add(id(o))
        MON.prov[id(o)] = rid
        MON.keep.append(o)


def _c10_probe(rule, orig, oFile, dFixOnly, rid, after):
    MON.c10_probes += 1
    ids_before = [(id(o), o.value) for o in oFile.lAllObjects]
    try:
        orig(rule, oFile, dFixOnly)
    except Exception as e:
        fr = vsgapi.innermost_vsg_frame(e)
        _add("C10", {"rule": rid, "kind": "second_fix_raised"}, {"exc": type(e).__name__, "where": "%s:%s" % (fr[0], fr[1])})
        MON.skip_c10 = True
        return
    again = _model_text(oFile)
    if again != after:
        _add("C10", {"rule": rid, "kind": "second_fix_changed_text"}, {"first_diff": _first_line_diff(after, again)})
        MON.skip_c10 = True
        return
    vals = [o.value for o in oFile.lAllObjects]
    if len(vals) != len(ids_before):
        _add("C10", {"rule": rid, "kind": "second_fix_changed_tokens"}, {"n": (len(ids_before), len(vals))})
        MON.skip_c10 = True


def _wrap_analyze(orig):
    def analyze(self, oFile):
        if not MON.active or MON.depth > 0:
            return orig(self, oFile)
        # top-level analyze (warning-severity rules inside rule_list.fix, or check runs)
        if "C13" in MON.props and self.phase not in MON.phase_start_lines:
            MON.phase_start_lines[self.phase] = oFile.get_lines()[1:]
        before = _model_text(oFile)
        r = orig(self, oFile)
        after = _model_text(oFile)
        if before != after:
            _add("C03", {"rule": self.unique_id, "kind": "analysis_changed_file"}, {"first_diff": _first_line_diff(before, after)})
        return r

    analyze._verif_wrapped = True
    return analyze


def _fingerprint(oFile):
    return (id(oFile.oTokenMap), hash(tuple(map(id, oFile.lAllObjects))))


def _wrap_toi(orig):
    def _get_tokens_of_interest(self, oFile):
        lToi = orig(self, oFile)
        if not MON.active or "C18" not in MON.props:
            return lToi
        try:
            _c18(self, oFile, lToi)
        except Exception as e:  # the check itself must never disturb the run
            MON.labels["c18_check_error:%s" % type(e).__name__] = MON.labels.get("c18_check_error:%s" % type(e).__name__, 0) + 1
        return lToi

    _get_tokens_of_interest._verif_wrapped = True
    return _get_tokens_of_interest


def _c18(rule, oFile, lToi):
    from vsg.token_map import process_tokens

    rid = rule.unique_id
    fp = _fingerprint(oFile)
    objs = oFile.lAllObjects
    if fp != MON.fp:
        MON.fp = fp
        ref = process_tokens(objs)
        MON.c18_checks += 1
        if MON.token_count_changed:
            MON.c18_after_change += 1
        if ref.dMap != oFile.oTokenMap.dMap:
            bad = [k for k in set(ref.dMap) | set(oFile.oTokenMap.dMap) if ref.dMap.get(k) != oFile.oTokenMap.dMap.get(k)]
            _add("C18", {"kind": "stale_token_index", "seen_by": rid, "after": (MON.fix_calls[-2] if len(MON.fix_calls) > 1 and MON.depth else (MON.fix_calls[-1] if MON.fix_calls else "parse"))}, {"keys": sorted(map(str, bad))[:4]})
        pre = [0] * (len(objs) + 1)
        c = 0
        CR = parser.carriage_return
        for i, o in enumerate(objs):
            pre[i] = c
            if isinstance(o, CR):
                c += 1
        pre[len(objs)] = c
        MON.crprefix = pre
    pre = MON.crprefix
    n_bad = 0
    for oToi in lToi:
        toks = oToi.get_tokens()
        s = oToi.get_start_index()
        off = 0
        while off < len(toks) and isinstance(toks[off], parser.beginning_of_file):
            off += 1
        toks = toks[off:]
        sl = objs[s : s + len(toks)]
        if len(sl) != len(toks) or any(a is not b for a, b in zip(sl, toks)):
            _add("C18", {"kind": "toi_not_the_slice_at_recorded_start", "rule": rid}, {"start": s, "len": len(toks), "toi": [t.get_value() for t in toks[:6]], "list": [t.get_value() for t in sl[:6]]})
            n_bad += 1
            break
        ie = getattr(oToi, "iEndIndex", None)
        if ie is not None and ie != s + len(toks):
            _add("C18", {"kind": "toi_end_index_wrong", "rule": rid}, {"start": s, "len": len(toks), "end": ie})
            break
        ln = oToi.get_line_number()
        if isinstance(ln, int) and 0 <= s < len(pre) and ln != pre[s] + 1:
            MON.labels["info_toi_line_is_not_line_of_start_index"] = MON.labels.get("info_toi_line_is_not_line_of_start_index", 0) + 1
    MON.labels["c18_toi_lists"] = MON.labels.get("c18_toi_lists", 0) + 1


def _wrap_update(orig):
    def update(self, lUpdates, bUpdateMap):
        if MON.active and MON.cur is not None and MON.depth == 1:
            ev = MON.cur
            try:
                lines = []
                for v in lUpdates:
                    lines.append(v.get_line_number())
                ev["reported"] = (ev["reported"] or []) + lines
                ev["updates"] += 1
                if lines:
                    MON.update_log.append((ev["rule"], lines))
                if "C18" in MON.props and len(lUpdates) > 1:
                    spans = sorted((v.oTokens.iStartIndex, v.oTokens.iEndIndex) for v in lUpdates)
                    for (s1, e1), (s2, e2) in zip(spans, spans[1:]):
                        if s2 < e1 and (s1, e1) != (s2, e2):
                            MON.labels["info_overlapping_update_slices"] = MON.labels.get("info_overlapping_update_slices", 0) + 1
                            break
            except Exception as e:
                MON.labels["update_wrap_error:%s" % type(e).__name__] = 1
        return orig(self, lUpdates, bUpdateMap)

    update._verif_wrapped = True
    return update


def install():
    if MON.installed:
        return
    MON.installed = True
    seen = set()
    for r in vsgapi.rule_list.load_rules():
        for c in type(r).__mro__:
            if c in seen or c is object:
                continue
            seen.add(c)
            d = c.__dict__
            if "fix" in d and callable(d["fix"]) and not getattr(d["fix"], "_verif_wrapped", False):
                setattr(c, "fix", _wrap_fix(d["fix"]))
            if "analyze" in d and callable(d["analyze"]) and not getattr(d["analyze"], "_verif_wrapped", False):
                setattr(c, "analyze", _wrap_analyze(d["analyze"]))
            if "_get_tokens_of_interest" in d and callable(d["_get_tokens_of_interest"]) and not getattr(d["_get_tokens_of_interest"], "_verif_wrapped", False):
                setattr(c, "_get_tokens_of_interest", _wrap_toi(d["_get_tokens_of_interest"]))
    cls = VF.vhdlFile
    if not getattr(cls.__dict__["update"], "_verif_wrapped", False):
        cls.update = _wrap_update(cls.__dict__["update"])


# ------------------------------------------------------------------------------------------
# the run
# ------------------------------------------------------------------------------------------
def token_sig(f):
    return [(type(o).__module__.replace("vsg.", "") + "." + type(o).__name__, o.get_value(), getattr(o, "indent", None)) for o in f.lAllObjects]


def run(text, style=None, conf=None, props=ALL_PROPS, fix_phase=7, max_passes=5, skip_phase=None, fix_only=None):
    """returns obs: {rejected|crash|..., failures:{prop:[...]}, labels, fired, out_text}"""
    install()
    obs = {"failures": {p: [] for p in props}, "labels": {}, "fired": {}, "changed": False}
    lines = text.split("\n")
    MON.reset(props)
    try:
        f, c, cla = vsgapi.parse(lines, style, conf)
    except exceptions.ClassifyError:
        obs["rejected"] = True
        return obs
    except exceptions.ConfigurationError:
        obs["config_error"] = True
        return obs
    # oracle/VSG agreement on the input (set aside otherwise)
    in_atoms = lexer.lex(text)
    per_tok = []
    for o in f.lAllObjects:
        v = o.get_value()
        if v and not v.isspace():
            per_tok.extend((a.kind, a.value) for a in lexer.lex(v))
    if [(a.kind, a.value.rstrip() if a.kind in lexer.COMMENT_KINDS else a.value) for a in in_atoms] != [(k, v.rstrip() if k in lexer.COMMENT_KINDS else v) for k, v in per_tok]:
        obs["oracle_disagreement"] = True
        return obs
    MON.last_lex = (None, None)
    try:
        rl = vsgapi.make_rules(f, c)
    except exceptions.ConfigurationError:
        obs["config_error"] = True
        return obs
    in_text = _model_text(f)
    MON.last_text = in_text
    if "C08" in props:
        MON.known_ids = set(map(id, f.lAllObjects))
        MON.keep.extend(f.lAllObjects)
    MON.active = True
    crash = None
    t0 = time.time()
    try:
        rl.fix(fix_phase, skip_phase, fix_only)
    except Exception as e:
        fr = vsgapi.innermost_vsg_frame(e)
        crash = {"exc": type(e).__name__, "where": "%s:%s" % (fr[0], fr[1]), "rule": (MON.fix_calls[-1] if MON.fix_calls else None), "msg": str(e)[:200]}
    finally:
        MON.active = False
    obs["fix_s"] = time.time() - t0
    if crash:
        obs["crash"] = crash
        if "C19" in props:
            MON.fail["C19"].append({"sig": {"kind": "crash_in_fix", "exc": crash["exc"], "where": crash["where"]}, "detail": crash})
    else:
        end_text = _model_text(f)
        if MON.last_text is not None and end_text != MON.last_text:
            MON.active = True
            try:
                analyse_application(None, "rule_list_cleanup", MON.last_text, end_text, None)
            finally:
                MON.active = False
        out_lines = f.get_lines()[1:]
        out_text = "\n".join(out_lines)
        obs["out_text"] = out_text
        obs["changed"] = out_text != text
        # write-out step and the end-to-end comparison (C01/C02)
        if "C01" in props or "C02" in props:
            ea = lexer.lex(end_text.rstrip("\n"))
            eo = lexer.lex(out_text)
            if [lexer.norm(x) for x in ea if x.kind not in lexer.COMMENT_KINDS] != [lexer.norm(x) for x in eo if x.kind not in lexer.COMMENT_KINDS]:
                _add("C01", {"rule": "emit", "kind": "code_atoms_changed"}, {})
            if "C01" in props and not MON.allow_fired and not MON.fail["C01"] and not MON.corrupt:
                a = [lexer.norm(x) for x in in_atoms if x.kind not in lexer.COMMENT_KINDS]
                b = [lexer.norm(x) for x in eo if x.kind not in lexer.COMMENT_KINDS]
                if a != b:
                    _add("C01", {"rule": "whole_run", "kind": "code_atoms_changed"}, atoms.first_difference(a, b))
        corrupt = MON.corrupt
        if "C08" in props and not corrupt:
            _c08(f, c, cla, style, conf, out_lines)
        if "C09" in props and not corrupt:
            _c09(out_lines, style, conf, max_passes, obs)
        if corrupt:
            obs["labels"]["excluded_downstream_by_corruption"] = 1
    for p in props:
        obs["failures"][p] = MON.fail.get(p, [])
    obs["fired"] = dict(MON.fired)
    obs["labels"].update(MON.labels)
    obs["labels"]["c18_index_checks"] = MON.c18_checks
    obs["c18_after_change"] = MON.c18_after_change
    obs["c10_probes"] = MON.c10_probes
    obs["c07_checked"] = MON.c07_checked
    obs["allow_fired"] = MON.allow_fired
    obs["fix_phases"] = list(MON.fix_phases)
    obs["update_log"] = list(MON.update_log)
    obs["phase_start_lines"] = dict(MON.phase_start_lines)
    obs["rule_list"] = rl
    obs["file"] = f
    return obs


def _c08(f, c, cla, style, conf, out_lines):
    try:
        g, _, _ = vsgapi.parse(out_lines, style, conf)
    except exceptions.ClassifyError as e:
        MON.fail["C08"].append({"sig": {"kind": "output_rejected"}, "detail": {"message": str(getattr(e, "message", e))[:200]}})
        return
    except Exception as e:
        fr = vsgapi.innermost_vsg_frame(e)
        MON.fail["C08"].append({"sig": {"kind": "output_crashes_parser", "where": "%s:%s" % (fr[0], fr[1])}, "detail": {"exc": type(e).__name__}})
        return
    a = token_sig(f)
    b = token_sig(g)
    if [x[:2] for x in a] != [x[:2] for x in b]:
        i = next((i for i, (x, y) in enumerate(zip(a, b)) if x[:2] != y[:2]), min(len(a), len(b)))
        x = a[i] if i < len(a) else ("<end>", "", None)
        y = b[i] if i < len(b) else ("<end>", "", None)
        prod = MON.prov.get(id(f.lAllObjects[i]), "parse_or_cleanup") if i < len(f.lAllObjects) else "end"
        prod_rule, prod = prod, site_of_id(prod)
        kind = "empty_whitespace_token_in_model" if (x[0] == "parser.whitespace" and x[1] == "") else "token_level"
        MON.fail["C08"].append({"sig": {"kind": kind, "producer": prod, "model": x[0]}, "detail": {"at": i, "producing_rule": prod_rule, "reparsed_class": y[0], "model": a[max(0, i - 3) : i + 3], "reparsed": b[max(0, i - 3) : i + 3]}})
        return
    for i, (x, y) in enumerate(zip(a, b)):
        if x[2] != y[2]:
            MON.fail["C08"].append({"sig": {"kind": "indent_level", "token": x[0], "producer": site_of_id(MON.prov.get(id(f.lAllObjects[i]), "parse_or_cleanup"))}, "detail": {"at": i, "model": x, "reparsed": y, "context": [t[1] for t in a[max(0, i - 4) : i + 3]]}})
            return


def plain_fix(lines, style, conf):
    f, c, cla = vsgapi.parse(lines, style, conf)
    rl = vsgapi.make_rules(f, c)
    rl.fix()
    return f.get_lines()[1:], f, rl


def _c09(out_lines, style, conf, max_passes, obs):
    seen = [out_lines]
    cur = out_lines
    for p in range(2, max_passes + 1):
        try:
            nxt, f2, rl2 = plain_fix(cur, style, conf)
        except exceptions.ClassifyError:
            obs["labels"]["c09_pass_rejected_(C08)"] = 1
            return
        except Exception:
            obs["labels"]["c09_pass_crashed_(C19)"] = 1
            return
        if nxt == cur:
            if p > 2:
                r1 = _first_refiring(seen[0], style, conf)
                MON.fail["C09"].append({"sig": {"kind": "second_fix_changes_text", "site": site_of_id(r1)}, "detail": {"passes_to_fix_point": p - 1, "rule": r1}})
            return
        if nxt in seen:
            r1 = _first_refiring(seen[0], style, conf)
            MON.fail["C09"].append({"sig": {"kind": "cycle", "site": site_of_id(r1)}, "detail": {"period": len(seen) - seen.index(nxt), "rule": r1}})
            return
        seen.append(nxt)
        cur = nxt
    r1 = _first_refiring(seen[0], style, conf)
    MON.fail["C09"].append({"sig": {"kind": "second_fix_changes_text", "site": site_of_id(r1)}, "detail": {"no_fix_point_within": max_passes, "rule": r1}})


def _first_refiring(lines, style, conf):
    """the first rule that changes the text when --fix is applied to its own output (signature of a C09 failure)"""
    install()
    saved = (MON.props, MON.fail, MON.fired, MON.labels)
    MON.reset(())
    try:
        f, c, cla = vsgapi.parse(lines, style, conf)
        rl = vsgapi.make_rules(f, c)
        first = []
        MON.last_text = None
        MON.active = True
        MON.props = ("_first",)
        MON.first_changed = first
        try:
            rl.fix()
        finally:
            MON.active = False
        order = [r for r in MON.fix_calls if r in MON.fired]
        return order[0] if order else ("rule_list_cleanup" if MON.fired else "?")
    except Exception:
        return "?"
    finally:
        keep_fired = None
        MON.props, MON.fail, MON.fired, MON.labels = saved
