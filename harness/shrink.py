"""Bounded delta debugging (ddmin) used instead of Hypothesis' shrinker (collect-then-shrink)."""
import time


def ddmin(items, test, deadline):
    """smallest sublist (1-minimal within the time budget) for which test(sublist) is True.
    test(items) is assumed True."""
    items = list(items)
    n = 2
    while len(items) >= 2 and time.time() < deadline:
        chunk = max(1, len(items) // n)
        subsets = [items[i : i + chunk] for i in range(0, len(items), chunk)]
        reduced = False
        for i, sub in enumerate(subsets):
            if time.time() >= deadline:
                break
            comp = [x for j, s in enumerate(subsets) if j != i for x in s]
            if comp and test(comp):
                items = comp
                n = max(n - 1, 2)
                reduced = True
                break
        if not reduced:
            if n >= len(items):
                break
            n = min(len(items), n * 2)
    if len(items) == 1 and time.time() < deadline:
        try:
            if test([]):
                return []
        except Exception:
            pass
    return items


def shrink_lines(text, test, deadline):
    """remove lines of text while test(text) stays True"""
    lines = text.split("\n")
    idx = list(range(len(lines)))

    def t(sub):
        return test("\n".join(lines[i] for i in sub))

    keep = ddmin(idx, t, deadline)
    return "\n".join(lines[i] for i in keep)
