"""C04 - reading is lossless; a clean file is never rewritten.

(a) tokenizer round trip  ''.join(tokens.create(s)) == s   exhaustive over short strings + Hypothesis text
(b) parse/emit round trip through read_vhdlfile (tabs, trailing blanks, CRLF, Latin-1) + every token classified
(c) CLI: no-fix runs and --fix on a fix-point file leave bytes/inode/mtime/mode untouched
"""
import itertools
import os
import random
import stat

from hypothesis import strategies as st

from harness import vsgapi
from harness.gen import corpus
from harness.oracles import common

from vsg import tokens as vsg_tokens, parser  # noqa: E402

LEVEL = "exploration"
ALPHABET = ['"', "'", "\\", " ", "\t", "-", "/", "*", "=", "<", ">", "?", "(", ")", ";", ":", ".", "_", "#", ",", "&", "|", "+", "a", "e", "x", "b", "1"]
ALPHABET_T = ['"', "'", "\\", " ", "-", "/", "*", "=", "<", ">", "?", "(", ";", ":", ".", "_", "#", "a", "e", "x", "b", "1", "[", "@", "\xa0"]
LMAX = {"quick": 4, "thorough": 5}
RULE = (
    "(a) every string over a %d-symbol VHDL delimiter alphabet up to length 4 (quick) / a 25-symbol alphabet up to length 5 (thorough), enumerated "
    "exhaustively, plus Hypothesis text over that alphabet + Latin-1/Unicode up to length 200: join(tokens.create(s)) == s; "
    "(b) fixtures and their re-layouts (tabs, trailing blanks, CRLF, Latin-1 bytes) written to disk and read with vsg's read_vhdlfile: emitted lines == read "
    "lines and no token left unclassified (exact type parser.item); (c) in-process CLI on temp files: runs without --fix, and --fix on a file that a "
    "previous fix left at a fixed point, keep bytes, st_ino, st_mtime_ns, st_mode, st_size. non-trivial: (a) the string splits into >=2 tokens, "
    "(b) the text has a literal or comment, (c) the file had violations before being fixed / still reports unfixable ones; distinct by content hash"
) % len(ALPHABET)
ASSUMPTIONS = [
    "exhaustive only for the stated alphabet and length bound (sub-domain); beyond it sampling",
    "(c) inode/mtime equality is required only when the remaining violations are none, unfixable-rule or warning-severity ones; content equality always",
]
EXHAUSTIVE = {"quick": False, "thorough": False}
CASE_TIME_LIMIT = 600


def fixed_cases(tier):
    out = []
    alpha = ALPHABET if tier == "quick" else ALPHABET_T
    L = LMAX[tier]
    # exhaustive tokenizer shards: fixed first two characters
    for a in alpha:
        for b in alpha:
            out.append({"k": "tok_exh", "prefix": a + b, "L": L, "alpha": "q" if tier == "quick" else "t"})
    out.append({"k": "tok_exh_short", "alpha": "q" if tier == "quick" else "t"})
    if tier == "thorough":
        for k in range(4):
            out.append({"k": "atheris", "seed": k, "runs": 400000})
    files = corpus.files()
    for f in files:
        out.append({"k": "emit", "file": f, "level": 0, "lseed": 0, "enc": "utf-8", "eol": "\n"})
    step = 6 if tier == "quick" else 1
    for f in files[::step]:
        if len(corpus.lines(f)) <= (120 if tier == "quick" else 400):
            out.append({"k": "cli", "file": f, "level": 0, "lseed": 0, "style": None})
    return out


def n_generated(tier):
    return 6000 if tier == "quick" else 40000


def strategy(tier):
    files = corpus.files()
    small = corpus.small_files(120 if tier == "quick" else 300)
    tok = st.fixed_dictionaries({"k": st.just("tok_rand"), "s": st.one_of(st.text(alphabet=ALPHABET + ALPHABET_T, max_size=40), st.text(max_size=60), st.text(alphabet=st.characters(max_codepoint=255), max_size=200))})
    emit = st.fixed_dictionaries(
        {
            "k": st.just("emit"),
            "file": common.source_strategy(files),
            "level": st.sampled_from([1, 2, 3, 4]),
            "lseed": st.integers(0, 2**31 - 1),
            "tabs": st.booleans(),
            "enc": st.sampled_from(["utf-8", "utf-8", "latin-1"]),
            "eol": st.sampled_from(["\n", "\n", "\r\n"]),
        }
    )
    cli = st.fixed_dictionaries(
        {
            "k": st.just("cli"),
            "file": common.source_strategy(small),
            "level": st.sampled_from([0, 1, 2, 3]),
            "lseed": st.integers(0, 2**31 - 1),
            "tabs": st.booleans(),
            "style": st.sampled_from([None, "jcl", "indent_only"]),
        }
    )
    return st.one_of(tok, tok, emit, emit, emit, cli)


def _tok_check(s, res, concrete=True):
    try:
        t = vsg_tokens.create(s)
    except Exception as e:
        fr = vsgapi.innermost_vsg_frame(e)
        res["failures"].append({"sig": {"kind": "tokenizer_crash", "exc": type(e).__name__, "where": fr[1]}, "detail": {"s": s}, "case": {"k": "tok_rand", "s": s}})
        return 0
    if "".join(t) != s:
        res["failures"].append({"sig": {"kind": "tokenizer_roundtrip"}, "detail": {"s": s, "tokens": t}, "case": {"k": "tok_rand", "s": s}})
    return len([x for x in t if x != ""])


def run_case(case, tier):
    res = {"labels": {}, "nontrivial": [], "failures": []}
    k = case["k"]
    if k == "tok_exh":
        alpha = ALPHABET if case["alpha"] == "q" else ALPHABET_T
        n = 0
        nt = 0
        for L in range(2, case["L"] + 1):
            for rest in itertools.product(alpha, repeat=L - 2):
                s = case["prefix"] + "".join(rest)
                n += 1
                if _tok_check(s, res) >= 2:
                    nt += 1
                if len(res["failures"]) > 20:
                    break
        res["evals"] = n
        res["labels"]["tok_exhaustive_strings"] = n
        res["labels"]["tok_exhaustive_multi_token"] = nt
        # every enumerated string is distinct by construction; count non-trivial ones exactly
        res["nontrivial"] = ["x%s%d" % (case["prefix"], i) for i in range(nt)]
        if case["prefix"] == alpha[0] + alpha[1]:
            res["sample"] = {"kind": "tok_exh", "prefix": case["prefix"], "strings": n, "example": case["prefix"] + alpha[5] + alpha[-1], "tokens": vsg_tokens.create(case["prefix"] + alpha[5] + alpha[-1])}
        return res
    if k == "tok_exh_short":
        alpha = ALPHABET if case["alpha"] == "q" else ALPHABET_T
        n = 0
        for s in [""] + list(alpha):
            _tok_check(s, res)
            n += 1
        res["evals"] = n
        return res
    if k == "tok_rand":
        s = case["s"]
        nt = _tok_check(s, res)
        res["labels"]["tok_random"] = 1
        if nt >= 2:
            res["nontrivial"].append(common.h("t", s))
        return res
    if k == "atheris":
        return _atheris(case, res)
    if k == "emit":
        return _emit(case, res)
    if k == "cli":
        return _cli(case, res, tier)
    raise ValueError(k)


def _emit(case, res):
    if "bytes_hex" in case:
        data = bytes.fromhex(case["bytes_hex"])
    else:
        _, new, ops, _ = common.realise_layout(case)
        rr = random.Random(case["lseed"])
        if case.get("level", 0) and rr.random() < 0.3:
            new = new.replace("-- c", "-- \xe9c")  # non-ASCII comment text
        if case.get("level", 0) and rr.random() < 0.3:
            # exotic (non line-breaking for a file reader) control/space characters inside comments
            ch = rr.choice(["\x0c", "\x0b", "\x1c", "\x1d", "\x1e", "\x85", "\u2028", "\u2029", "\xa0"])
            new = new.replace("-- c", "-- " + ch + "c", rr.randint(1, 3))
        if case.get("level", 0) and rr.random() < 0.35:
            # delimited comments in whitespace gaps: one, or two on the same line with code between them, or one spanning two lines
            from harness import lexer
            from harness.gen import layout

            atoms = lexer.lex(new)
            plain = lambda a: a.kind not in ("comment", "pre", "dcomment")  # noqa: E731
            cand = [i for i in range(1, len(atoms)) if plain(atoms[i]) and plain(atoms[i - 1]) and new[atoms[i - 1].end : atoms[i].start] not in ("",) and "\n" not in new[atoms[i - 1].end : atoms[i].start]]
            if cand:
                i = rr.choice(cand)
                edits = [[i, "gap", " /* d%d */ " % i]]
                mode = rr.random()
                if mode < 0.5:
                    later = [j for j in cand if j > i and "\n" not in new[atoms[i].start : atoms[j].start]]
                    if later:
                        j = rr.choice(later[:4])
                        edits.append([j, "gap", " /* e%d */" % j + rr.choice(["", " "])])
                        res["labels"]["two_delimited_comments_on_one_line"] = 1
                elif mode < 0.7:
                    edits = [[i, "gap", " /* d%d\n   continued */ " % i]]
                new = layout.apply_edits(new, edits, atoms)
                res["labels"]["delimited_comment_inserted"] = 1
        try:
            data = (new.replace("\n", case["eol"]) + case["eol"]).encode(case["enc"])
        except UnicodeEncodeError:
            data = (new.replace("\n", case["eol"]) + case["eol"]).encode("utf-8")
    fn = os.path.join(vsgapi.scratch_dir(), "emit_%d.vhd" % os.getpid())
    with open(fn, "wb") as f:
        f.write(data)
    lines, err = vsgapi.VF.utils.read_vhdlfile(fn)
    concrete = {"k": "emit", "bytes_hex": data.hex()}
    # independent reading of the bytes: utf-8 else latin-1, universal newlines (\r\n, \r, \n) and nothing else
    try:
        ref = data.decode("utf-8")
    except UnicodeDecodeError:
        ref = data.decode("latin-1")
    ref = ref.replace("\r\n", "\n").replace("\r", "\n")
    ref_lines = ref.split("\n")
    if ref.endswith("\n"):
        ref_lines = ref_lines[:-1]
    if lines != ref_lines:
        i = next((i for i, (a, b) in enumerate(zip(lines, ref_lines)) if a != b), min(len(lines), len(ref_lines)))
        res["failures"].append({"sig": {"kind": "read_not_lossless"}, "detail": {"line": i + 1, "file_line": ref_lines[i : i + 1], "read_as": lines[i : i + 1], "n": (len(ref_lines), len(lines))}, "case": concrete})
        return res
    try:
        oFile = vsgapi.VF.vhdlFile(list(lines), vsgapi.CLA(), fn, None, vsgapi.get_config()[0])
    except common.exceptions.ClassifyError:
        res["labels"]["rejected_by_vsg"] = 1
        return res
    except Exception:
        if not res["labels"].get("delimited_comment_inserted"):
            raise
        res["labels"]["classifier_crash_with_delimited_comment_(C19)"] = 1  # not accepted: outside C04's domain
        return res
    res["labels"]["emit_level_%d" % case.get("level", 0)] = 1
    out = oFile.get_lines()[1:]
    if out != lines:
        i = next((i for i, (a, b) in enumerate(zip(lines, out)) if a != b), min(len(lines), len(out)))
        res["failures"].append({"sig": {"kind": "emit_differs"}, "detail": {"line": i + 1, "read": lines[i : i + 1], "emitted": out[i : i + 1], "n": (len(lines), len(out))}, "case": concrete})
    left = [o.get_value() for o in oFile.lAllObjects if type(o) is parser.item]
    if left:
        res["failures"].append({"sig": {"kind": "unclassified_token"}, "detail": {"values": left[:5]}, "case": concrete})
    txt = "\n".join(lines)
    if '"' in txt or "'" in txt or "--" in txt:
        res["nontrivial"].append(common.h("e", data.hex()))
    if not res["failures"] and case.get("level", 0) >= 3:
        res["sample"] = {"kind": "emit", "file": case.get("file"), "enc": case.get("enc"), "eol": repr(case.get("eol")), "excerpt": common.short(txt, 200)}
    return res


def _stat(fn):
    s = os.stat(fn)
    return {"ino": s.st_ino, "mtime_ns": s.st_mtime_ns, "mode": s.st_mode, "size": s.st_size}


def _cli(case, res, tier):
    if "text" in case and "file" not in case:
        new = case["text"]
    else:
        _, new, _, _ = common.realise_layout(case)
    style = case.get("style")
    d = vsgapi.scratch_dir()
    fn = os.path.join(d, "cli_%d.vhd" % os.getpid())
    base = ["-p", "1"] + (["--style", style] if style else [])
    concrete = {"k": "cli", "text": new, "style": style}

    def write(t):
        with open(fn, "w", encoding="utf-8") as f:
            f.write(t + "\n")
        os.chmod(fn, 0o640)

    def rd():
        return open(fn, "rb").read()

    write(new)
    b0, s0 = rd(), _stat(fn)
    # (i) runs without --fix
    for extra in ([], ["-ap"], ["-of", "syntastic"]):
        code, out, err, exc = vsgapi.run_cli(base + ["-f", fn] + extra)
        if exc is not None:
            res["labels"]["cli_crash_(C19)"] = 1
            return res
        if rd() != b0 or _stat(fn) != s0:
            res["failures"].append({"sig": {"kind": "check_run_touched_file", "what": "content" if rd() != b0 else "metadata"}, "detail": {"args": extra}, "case": concrete})
            return res
    res["labels"]["cli_nofix_runs"] = 3
    if "Error while processing" in err or code == 1 and "Error" in err and "processing" in err:
        res["labels"]["cli_rejected"] = 1
        # a rejected file must not be touched by --fix either
        code, out, err, exc = vsgapi.run_cli(base + ["-f", fn, "--fix"])
        if exc is None and (rd() != b0 or _stat(fn) != s0):
            res["failures"].append({"sig": {"kind": "rejected_file_touched"}, "detail": {}, "case": concrete})
        return res
    had_violations = code != 0
    # (ii) reach a fixed point with --fix (max 6 passes), then one more --fix must not touch the file
    prev = b0
    reached = False
    for i in range(6):
        code, out, err, exc = vsgapi.run_cli(base + ["-f", fn, "--fix"])
        if exc is not None:
            res["labels"]["cli_crash_(C19)"] = 1
            return res
        cur = rd()
        if cur == prev:
            reached = True
            break
        prev = cur
    if not reached:
        res["labels"]["no_fixed_point_(C09)"] = 1
        return res
    # rewrite the file freshly so that inode/mtime are a clean reference
    write(prev.decode("utf-8")[:-1] if prev.endswith(b"\n") else prev.decode("utf-8"))
    if rd() != prev:
        res["labels"]["reencode_mismatch"] = 1
        return res
    s1 = _stat(fn)
    _wrap_rule_list_fix()
    _HAD[:] = []
    code, out, err, exc = vsgapi.run_cli(base + ["-f", fn, "--fix"])
    if exc is not None:
        res["labels"]["cli_crash_(C19)"] = 1
        return res
    s2, b2 = _stat(fn), rd()
    had = list(_HAD)
    code, out, err, exc = vsgapi.run_cli(base + ["-f", fn, "-ap", "-js", fn + ".json"])
    if exc is not None:
        res["labels"]["cli_crash_(C19)"] = 1
        return res
    import json as _json

    try:
        remaining = _json.load(open(fn + ".json"))["files"][0]["violations"]
    except Exception:
        remaining = None
    finally:
        try:
            os.remove(fn + ".json")
        except OSError:
            pass
    if b2 != prev:
        res["failures"].append({"sig": {"kind": "fixpoint_file_content_changed"}, "detail": {}, "case": concrete})
        return res
    res["labels"]["cli_fixpoint_runs"] = 1
    strict = remaining is not None and (len(remaining) == 0 or all(_unfixable(v, style) for v in remaining))
    if strict:
        res["labels"]["cli_fixpoint_strict"] = 1
        if s2 != s1:
            from harness import engine

            for rid in had or ["?"]:
                res["failures"].append({"sig": {"kind": "clean_file_rewritten", "site": engine.site_of_id(rid)}, "detail": {"before": s1, "after": s2, "remaining": remaining[:3], "rules_claiming_a_fix": had}, "case": concrete})
    else:
        res["labels"]["cli_fixpoint_has_unrepairable_fixable_violations"] = 1
        if s2 != s1:
            res["labels"]["rewritten_identically_due_to_unrepairable_violation"] = 1
    if had_violations or (remaining and strict):
        res["nontrivial"].append(common.h("c", new, style))
    if not res["failures"] and had_violations:
        res["sample"] = {"kind": "cli", "file": case.get("file"), "style": style, "remaining_after_fix": len(remaining or []), "strict": strict}
    return res


_UNFIX = {}
_HAD = []
_WRAPPED = [False]


def _wrap_rule_list_fix():
    """observe (never replace) rule_list.fix: remember which rules claim to have fixed something"""
    if _WRAPPED[0]:
        return
    _WRAPPED[0] = True
    RL = vsgapi.rule_list.rule_list
    orig = RL.fix

    def fix(self, *a, **kw):
        r = orig(self, *a, **kw)
        _HAD[:] = sorted(x.unique_id for x in self.rules if x.had_violations)
        return r

    RL.fix = fix


def _unfixable(v, style):
    """violation entry of the JSON report belongs to a rule that never fixes (unfixable or non-error severity)"""
    if style not in _UNFIX:
        f, c, cla = vsgapi.parse([""], style)
        rl = vsgapi.make_rules(f, c)
        _UNFIX[style] = {r.unique_id for r in rl.rules if (not r.fixable) or r.severity.type != vsgapi.severity.error_type}
    return v["rule"] in _UNFIX[style]


def shrink(case, sig, tier, budget):
    if case.get("k") == "cli" and "text" in case:
        c = dict(case)
        c.pop("file", None)
        return common.shrink_text_case(run_case, c, sig, tier, budget)
    return case


def _atheris(case, res):
    """coverage-guided campaign (atheris/libFuzzer) on tokens.create with the round-trip oracle inside the target"""
    import glob
    import subprocess
    import sys

    d = os.path.join(vsgapi.scratch_dir(), "atht_%d_%d" % (os.getpid(), case["seed"]))
    os.makedirs(d, exist_ok=True)
    env = dict(os.environ)
    env["VERIF_REPO"] = vsgapi.REPO
    p = subprocess.run([sys.executable, os.path.join(vsgapi.VERIF, "harness", "fuzz", "tokens_atheris.py"), "-runs=%d" % case["runs"], "-seed=%d" % (500 + case["seed"] + (int(os.environ.get("VERIF_SEED", "1")) % 1) * 16), "-max_len=300"], cwd=d, env=env, capture_output=True, timeout=3000)
    err = p.stderr.decode("utf-8", "replace")
    res["evals"] = case["runs"]
    res["labels"]["atheris_tokenizer_runs"] = case["runs"]
    res["nontrivial"] = ["atht%d_%d" % (case["seed"], i) for i in range(case["runs"] // 100)]
    if p.returncode != 0:
        import ast
        import re as _re

        m = _re.search(r"RoundTripViolation: (.*)", err)
        line = None
        if m:
            try:
                line = ast.literal_eval(m.group(1).strip())
            except Exception:
                line = None
        if line is not None:
            _tok_check(line, res)
        if not res["failures"]:
            res["failures"].append({"sig": {"kind": "tokenizer_fuzz_target_failed"}, "detail": {"stderr": err[-400:]}, "case": {"k": "tok_rand", "s": line or ""}})
    res["sample"] = {"kind": "atheris_tokenizer", "runs": case["runs"], "exit": p.returncode}
    return res
