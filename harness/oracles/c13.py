"""C13 - phase gating, --all_phases, --fix_phase and skip_phase mean what they say."""
import copy
import json
import os
import random

from hypothesis import strategies as st

from harness import engine, vsgapi
from harness.gen import corpus
from harness.models import gating
from harness.oracles import common, fixprops

LEVEL = "exploration"
RULE = (
    "cases = (accepted fixture or re-layout, style, generated configuration that may re-assign the phase of up to 3 rules, turn the rules of the "
    "first failing phase into warnings, and list skip_phase; N in 1..7). oracle: (a) report without --all_phases == violations of the all-phases "
    "report whose (configured) phase <= first phase with an error-severity violation (reference model), via the API and, for a sample, via the "
    "in-process CLI and its JSON output; (b) --fix_phase N: no fix() call of a rule with phase > N is observed and the text equals the text a full "
    "--fix run had when it entered the first phase > N; (c) a skipped phase is neither fixed (no fix call) nor reported. non-trivial = violations "
    "exist in at least two phases; distinct by hash(text, style, configuration, N)"
)
ASSUMPTIONS = ["phase of a violation = configured phase attribute of its rule", "error-severity = severity.type == error of the configured severity"]


def fixed_cases(tier):
    out = []
    step = 3 if tier == "quick" else 1
    for f in corpus.files()[::step]:
        if len(corpus.lines(f)) > fixprops.MAXLINES[tier]:
            continue
        out.append({"file": f, "level": 0, "lseed": 0, "style": None, "conf": None, "pseed": common.stable_seed(f)})
    return out


def n_generated(tier):
    return 2000 if tier == "quick" else 14000


def strategy(tier):
    base = fixprops.strategy_for(tier, level_weights=(3, 3, 2, 1))

    def add(b, d):
        b = dict(b)
        b["pseed"] = d
        return b

    return st.builds(add, base, st.integers(0, 2**31 - 1))


def _mk(lines, style, conf):
    f, c, cla = vsgapi.parse(lines, style, [conf] if conf else None)
    rl = vsgapi.make_rules(f, c)
    return f, rl, c, cla


def run_case(case, tier):
    if "text" in case:
        new = case["text"]
    else:
        _, new, _, _ = common.realise_layout(case)
    style = case.get("style")
    conf = copy.deepcopy(case.get("conf")) if case.get("conf") else None
    res = {"labels": {}, "nontrivial": [], "failures": []}
    lab = res["labels"]
    lines = new.split("\n")
    rnd = random.Random(case["pseed"])

    try:
        f, rl, c, cla = _mk(lines, style, conf)
        rl.check_rules(bAllPhases=True)
    except common.exceptions.ClassifyError:
        lab["rejected_by_vsg"] = 1
        return res
    except common.exceptions.ConfigurationError:
        lab["config_rejected_by_vsg"] = 1
        return res
    except Exception:
        lab["crash_in_check_(C19)"] = 1
        return res
    base_v = vsgapi.violations_of(rl)
    # derive the configuration twist from the seed (or take the concrete one on replay)
    if "twist" in case:
        twist = case["twist"]
    else:
        twist = {"phase": {}, "warn": [], "skip": [], "N": rnd.randint(1, 7)}
        with_v = sorted(set(v[0] for v in base_v))
        r = rnd.random()
        if with_v and r < 0.35:
            for rid in rnd.sample(with_v, k=min(len(with_v), rnd.randint(1, 3))):
                twist["phase"][rid] = rnd.randint(1, 7)
        if with_v and 0.25 < r < 0.55:
            phs = sorted(set(x.phase for x in rl.rules if x.unique_id in with_v))
            first = phs[0]
            twist["warn"] = sorted(x.unique_id for x in rl.rules if x.phase == first and x.unique_id in with_v)
        if r > 0.6:
            twist["skip"] = sorted(rnd.sample(range(1, 8), k=rnd.randint(1, 2)))
        # (d) twist for the report of a --fix run: the earliest rule with violations becomes report-only (so an error survives the
        # fix in an early phase) and up to 3 rules of later phases become warnings (analysed, not fixed, by the fix pass)
        if with_v and rnd.random() < 0.5:
            by_ph = sorted(((x.phase, x.unique_id) for x in rl.rules if x.unique_id in with_v))
            first_ph, first_rule = by_ph[0]
            later = [rid for ph, rid in by_ph if ph > first_ph]
            twist["fixrep"] = {"nofix": [first_rule], "warn": sorted(rnd.sample(later, k=min(len(later), rnd.randint(1, 3)))) if later else []}
    concrete = {"text": new, "style": style, "conf": case.get("conf"), "pseed": case["pseed"], "twist": twist}
    conf2 = copy.deepcopy(conf) if conf else {}
    if twist["phase"] or twist["warn"]:
        conf2.setdefault("rule", {})
        for rid, ph in twist["phase"].items():
            conf2["rule"].setdefault(rid, {})["phase"] = ph
        for rid in twist["warn"]:
            conf2["rule"].setdefault(rid, {})["severity"] = "Warning"
    skip = list(twist["skip"])
    if skip:
        conf2["skip_phase"] = skip
    conf2 = conf2 or None

    def fail(kind, detail, rule=None):
        sig = {"kind": kind}
        if rule:
            sig["rule"] = rule
        res["failures"].append({"sig": sig, "detail": detail, "case": concrete})

    try:
        f, rl, c, cla = _mk(lines, style, conf2)
        skip_eff = list(getattr(cla, "skip_phase", []) or [])
        if sorted(skip_eff) != sorted(skip):
            fail("skip_phase_configuration_not_taken", {"configured": skip, "effective": skip_eff})
        rl.check_rules(bAllPhases=True, lSkipPhase=skip_eff)
        allv = vsgapi.violations_of(rl)
        phase_of = {r.unique_id: r.phase for r in rl.rules}
        is_err = {r.unique_id: r.severity.type == vsgapi.severity.error_type for r in rl.rules}
        for v in allv:
            if phase_of[v[0]] in skip:
                fail("skipped_phase_reported", {"violation": v}, v[0])
                break
        # the gated run uses a freshly parsed file, as a separate invocation of the tool would (re-using the object of the
        # all-phases run would let attributes written during that analysis leak into this one - C06's subject, not C13's)
        f, rl, c, cla = _mk(lines, style, conf2)
        rl.check_rules(bAllPhases=False, lSkipPhase=skip_eff)
        gv = vsgapi.violations_of(rl)
        exp, stop = gating.gated(allv, phase_of, is_err, skip)
        if gv != exp:
            extra = [v for v in gv if v not in exp]
            missing = [v for v in exp if v not in gv]
            fail("gated_report_is_not_the_prefix", {"stop_phase": stop, "extra": extra[:3], "missing": missing[:3]}, (extra or missing or [("?",)])[0][0])
        exit_expected = any(is_err[v[0]] for v in gv)
        if bool(rl.violations) != exit_expected:
            fail("exit_flag_disagrees_with_gated_report", {"flag": rl.violations, "error_violations": exit_expected})
    except common.exceptions.ConfigurationError:
        lab["config_rejected_by_vsg"] = 1
        return res
    except Exception:
        lab["crash_in_check_(C19)"] = 1
        return res
    phases_with_v = sorted(set(phase_of[v[0]] for v in allv))
    lab["phases_with_violations_%d" % min(len(phases_with_v), 4)] = 1
    if twist["phase"]:
        lab["phase_reassigned"] = 1
    if twist["warn"]:
        lab["first_phase_turned_warning"] = 1
    if skip:
        lab["with_skip_phase"] = 1

    # ---- (b)/(c) fix side, monitored
    N = twist["N"]
    try:
        full = engine.run(new, style, [conf2] if conf2 else None, props=("C13",), skip_phase=skip_eff)
        part = engine.run(new, style, [conf2] if conf2 else None, props=("C13",), fix_phase=N, skip_phase=skip_eff)
    except Exception:
        lab["harness_engine_error"] = 1
        raise
    if full.get("crash") or part.get("crash"):
        lab["crash_in_fix_(C19)"] = 1
    elif not (full.get("rejected") or full.get("config_error") or full.get("oracle_disagreement")):
        late = [(r, p) for r, p in part["fix_phases"] if p > N]
        if late:
            fail("fix_phase_N_ran_later_phase_rule", {"N": N, "rule": late[0]}, late[0][0])
        sk = [(r, p) for r, p in full["fix_phases"] if p in skip]
        if sk:
            fail("skipped_phase_was_fixed", {"skip": skip, "rule": sk[0]}, sk[0][0])
        # text at the end of phase N of the full run = text when the first later phase was entered (or the final text)
        later = sorted(p for p in full["phase_start_lines"] if p > N)
        ref = full["phase_start_lines"][later[0]] if later else full["out_text"].split("\n")
        got = part["out_text"].split("\n")
        if got != ref:
            i = next((i for i, (a, b) in enumerate(zip(got, ref)) if a != b), min(len(got), len(ref)))
            fail("fix_phase_N_text_is_not_the_phase_N_prefix", {"N": N, "line": i + 1, "fix_phase_N": got[i : i + 1], "full_run_at_end_of_phase_N": ref[i : i + 1]})
        lab["fix_phase_N_%d" % N] = 1
    # ---- CLI cross-check for a sample
    if case["pseed"] % 5 == 0 or "twist" in case:
        _cli(new, style, conf2, allv, gv, res, fail, lab)
    if twist.get("fixrep"):
        _cli_fix_report(new, style, conf2, twist["fixrep"], skip, fail, lab)
    if len(phases_with_v) >= 2:
        res["nontrivial"].append(common.h(new, style, conf2, N))
    if not res["failures"] and len(phases_with_v) >= 2:
        res["sample"] = {"file": case.get("file"), "style": style, "twist": twist, "phases_with_violations": phases_with_v, "stop_phase": stop, "n_all": len(allv), "n_gated": len(gv)}
    return res


def _cli(text, style, conf, allv, gv, res, fail, lab):
    d = vsgapi.scratch_dir()
    fn = os.path.join(d, "c13_%d.vhd" % os.getpid())
    with open(fn, "w") as fh:
        fh.write(text + "\n")
    args = ["-p", "1", "-f", fn]
    if style:
        args += ["--style", style]
    if conf:
        args += ["-c"] + vsgapi.write_conf_files([conf])
    out = {}
    for name, extra in (("ap", ["-ap"]), ("gated", [])):
        js = fn + "." + name + ".json"
        code, so, se, exc = vsgapi.run_cli(args + extra + ["-js", js])
        if exc is not None:
            lab["cli_crash_(C19)"] = 1
            return
        try:
            j = json.load(open(js))["files"][0]["violations"]
        except Exception:
            lab["cli_no_json"] = 1
            return
        finally:
            try:
                os.remove(js)
            except OSError:
                pass
        out[name] = sorted(((v["rule"], v["linenumber"], str(v["solution"])) for v in j), key=lambda t: (t[0], t[1], t[2]))
    lab["cli_cross_checks"] = 1
    a = [(r, l, str(s)) for r, l, s in allv]
    g = [(r, l, str(s)) for r, l, s in gv]
    if out["ap"] != sorted(a, key=lambda t: (t[0], t[1], t[2])):
        fail("cli_all_phases_report_differs_from_api", {"cli": len(out["ap"]), "api": len(a)})
    if out["gated"] != sorted(g, key=lambda t: (t[0], t[1], t[2])):
        fail("cli_gated_report_differs_from_model", {"cli": len(out["gated"]), "model": len(g)})


def _cli_fix_report(text, style, conf2, fixrep, skip, fail, lab):
    """(d) the report printed at the end of a --fix run is gated like any other report (self-consistency under the gating model; the
    comparison with a fresh check of the written file is C08's subject)."""
    conf3 = copy.deepcopy(conf2) if conf2 else {}
    conf3.setdefault("rule", {})
    for rid in fixrep["nofix"]:
        conf3["rule"].setdefault(rid, {})["fixable"] = False
    for rid in fixrep["warn"]:
        conf3["rule"].setdefault(rid, {})["severity"] = "Warning"
    try:
        f, rl, c, cla = _mk(text.split("\n"), style, conf3)
    except Exception:
        lab["fixrep_config_rejected"] = 1
        return
    phase_of = {r.unique_id: r.phase for r in rl.rules}
    is_err = {r.unique_id: r.severity.type == vsgapi.severity.error_type for r in rl.rules}
    d = vsgapi.scratch_dir()
    confs = vsgapi.write_conf_files([conf3])
    fn = os.path.join(d, "c13fix_%d.vhd" % os.getpid())
    with open(fn, "w") as fh:
        fh.write(text + "\n")
    js = fn + ".json"
    args = ["-p", "1", "-f", fn, "--fix", "-c"] + confs + (["--style", style] if style else []) + ["-js", js]
    code, so, se, exc = vsgapi.run_cli(args)
    try:
        if exc is not None or "Traceback" in (se or ""):
            lab["cli_fix_crash_(C19)"] = 1
            return
        try:
            j = json.load(open(js))["files"][0]["violations"]
        except Exception:
            lab["cli_fix_no_json"] = 1
            return
    finally:
        for x in (js, fn):
            try:
                os.remove(x)
            except OSError:
                pass
    got = sorted(((v["rule"], v["linenumber"], str(v["solution"])) for v in j), key=lambda t: (t[0], t[1], t[2]))
    lab["fix_report_checks"] = 1
    if any(r not in phase_of for r, _, _ in got):
        lab["fixrep_unknown_rule"] = 1
        return
    # a gated report is closed under the gating model: nothing may lie beyond the first phase that has an error-severity entry,
    # and nothing in a skipped phase
    exp, stop = gating.gated(got, phase_of, is_err, skip)
    if stop is not None:
        lab["fix_report_has_residual_error"] = 1
    if got != exp:
        extra = [v for v in got if v not in exp]
        fail("fix_report_goes_beyond_first_failing_phase", {"stop_phase": stop, "extra": extra[:3], "fixrep": fixrep}, extra[0][0])
    elif stop is not None and fixrep["warn"]:
        lab["fix_report_gated_with_later_warning_rules"] = 1


def shrink(case, sig, tier, budget):
    return common.shrink_text_case(run_case, case, sig, tier, budget)
