"""C09 - fixing converges: a second --fix changes nothing."""
from harness.oracles import common, fixprops

LEVEL = "exploration"
SEED_SPACE = {"quick": 32, "thorough": 4}
RULE = (
    "cases = (VHDL text, style, configuration): every fixture as is under the default and jcl styles, plus Hypothesis-drawn meaning-preserving "
    "re-layouts (levels 1-4: whitespace/case, line split/join, comments at line breaks, comments in whitespace gaps) of fixtures under style in "
    "{none, jcl, indent_only} and generated configurations; a monitored rule_list.fix() observes every rule application. "
    "oracle: fix is applied to its own output (fresh parse each time, as the CLI does) up to 5 times: pass 2 must not change the text; cycles and "
    "failure to reach a fixed point are reported separately; signature = first rule that changes the text in pass 2. non-trivial = pass 1 changed the "
    "text; distinct by hash(text, style, configuration)"
)
ASSUMPTIONS = ["cases in which pass 1 corrupted code/comments (C01/C02) are excluded and counted"]
PROPS = ("C09",)


def fixed_cases(tier):
    return fixprops.fixed_cases_for(tier)


def n_generated(tier):
    return 300 if tier == "quick" else 6000


def strategy(tier):
    return fixprops.strategy_for(tier)


def _nontrivial(obs, new):
    return bool(obs.get("fired"))


def run_case(case, tier):
    res, obs = fixprops.run_props(case, tier, PROPS, _nontrivial)
    return res


def shrink(case, sig, tier, budget):
    return fixprops.shrink_generic(run_case, case, sig, tier, budget)
