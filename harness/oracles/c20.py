"""C20 - --fix_only fixes what it lists and nothing else."""
import copy
import json
import os
import random

from hypothesis import strategies as st

from harness import engine, vsgapi
from harness.gen import corpus
from harness.oracles import common, fixprops

LEVEL = "exploration"
RULE = (
    "cases = (accepted fixture or re-layout, style, a fix_only selection S). Through the in-process CLI with a generated --fix_only JSON file: "
    "(i) every rule listed with 'all' => same bytes as plain --fix; (ii) {} and {fix:{rule:{}}} => file untouched (bytes, inode, mtime); "
    "(iii) a selection of 1-3 rules with line subsets: under the monitor only listed rules hand violations to the write-back (vhdlFile.update) and only "
    "for listed lines; for one line-local rule r that "
    "obeys C07 on this input (changes exactly its reported lines) and a strict non-empty subset L of its reported lines, the changed lines modulo "
    "trailing-whitespace removal are exactly L. non-trivial = L is a strict non-empty subset of the reported lines of r; distinct by hash(text, style, S)"
)
ASSUMPTIONS = ["format of the fix_only file is {fix: {rule: {id: [lines | 'all']}}} as read by the implementation (no fixture documents it further)"]
LINE_LOCAL = {"whitespace", "indent", "alignment", "case"}


def fixed_cases(tier):
    out = []
    step = 3 if tier == "quick" else 1
    for f in corpus.files()[::step]:
        if len(corpus.lines(f)) > fixprops.MAXLINES[tier]:
            continue
        out.append({"file": f, "level": 0, "lseed": 0, "style": None, "sseed": common.stable_seed(f)})
    return out


def n_generated(tier):
    return 1500 if tier == "quick" else 7000


def strategy(tier):
    files = corpus.small_files(fixprops.MAXLINES[tier])
    return st.fixed_dictionaries(
        {
            "file": common.source_strategy(files),
            "level": st.sampled_from([0, 1, 1, 2, 3]),
            "lseed": st.integers(0, 2**31 - 1),
            "tabs": st.just(False),
            "style": st.sampled_from([None, None, "jcl"]),
            "sseed": st.integers(0, 2**31 - 1),
        }
    )


def _cli_fix(text, style, fix_only, tag):
    d = vsgapi.scratch_dir()
    fn = os.path.join(d, "c20_%d_%s.vhd" % (os.getpid(), tag))
    with open(fn, "w") as fh:
        fh.write(text + "\n")
    st0 = os.stat(fn)
    args = ["-p", "1", "-f", fn, "--fix"]
    if style:
        args += ["--style", style]
    if fix_only is not None:
        fo = os.path.join(d, "c20_%d_fo.json" % os.getpid())
        with open(fo, "w") as fh:
            json.dump(fix_only, fh)
        args += ["--fix_only", fo]
    code, out, err, exc = vsgapi.run_cli(args)
    data = open(fn, "rb").read()
    st1 = os.stat(fn)
    same_meta = (st0.st_ino, st0.st_mtime_ns, st0.st_mode) == (st1.st_ino, st1.st_mtime_ns, st1.st_mode)
    return code, data, same_meta, exc


def _changed(a, b):
    """1-based changed line numbers modulo trailing whitespace; None if the line count differs"""
    if len(a) != len(b):
        return None
    return {i + 1 for i, (x, y) in enumerate(zip(a, b)) if x.rstrip() != y.rstrip()}


def run_case(case, tier):
    if "text" in case:
        new = case["text"]
    else:
        _, new, _, _ = common.realise_layout(case)
    style = case.get("style")
    res = {"labels": {}, "nontrivial": [], "failures": []}
    lab = res["labels"]
    lines = new.split("\n")
    rnd = random.Random(case["sseed"])
    try:
        f, c, cla = vsgapi.parse(lines, style)
        rl = vsgapi.make_rules(f, c)
        rl.check_rules(bAllPhases=True)
    except common.exceptions.ClassifyError:
        lab["rejected_by_vsg"] = 1
        return res
    except Exception:
        lab["crash_in_check_(C19)"] = 1
        return res
    rep = {}
    for r in rl.rules:
        if r.violations and r.fixable and not r.disable and r.severity.type == vsgapi.severity.error_type:
            rep[r.unique_id] = sorted(set(v.get_line_number() for v in r.violations))
    groups = {r.unique_id: set(r.groups) for r in rl.rules}
    all_ids = [r.unique_id for r in rl.rules]
    concrete = {"text": new, "style": style, "sseed": case["sseed"]}

    def fail(kind, detail, rule=None):
        sig = {"kind": kind}
        if rule:
            sig["rule"] = rule
        res["failures"].append({"sig": sig, "detail": detail, "case": concrete})

    # ---- (i) and (ii) through the CLI
    code0, plain, _, exc0 = _cli_fix(new, style, None, "p")
    if exc0 is not None:
        lab["cli_crash_(C19)"] = 1
        return res
    codeA, allb, _, excA = _cli_fix(new, style, {"fix": {"rule": {i: ["all"] for i in all_ids}}}, "a")
    if excA is not None:
        fail("fix_only_all_crashes", {"exc": repr(excA)[:200]})
    elif allb != plain:
        pl, al = plain.decode("utf-8", "replace").split("\n"), allb.decode("utf-8", "replace").split("\n")
        i = next((i for i, (a, b) in enumerate(zip(pl, al)) if a != b), min(len(pl), len(al)))
        fail("all_rules_all_lines_differs_from_plain_fix", {"line": i + 1, "plain": pl[i : i + 1], "fix_only_all": al[i : i + 1]})
    orig = (new + "\n").encode("utf-8")
    for tag, sel in (("e1", {}), ("e2", {"fix": {"rule": {}}})):
        codeE, eb, same_meta, excE = _cli_fix(new, style, sel, tag)
        if excE is not None:
            fail("empty_selection_crashes", {"exc": repr(excE)[:200], "selection": sel})
        elif eb != orig or not same_meta:
            fail("empty_selection_touched_file", {"selection": sel, "content_changed": eb != orig, "metadata_kept": same_meta})
    lab["cli_all_and_empty"] = 1
    # ---- (iii) selections under the monitor
    cands = sorted(rep)
    if cands:
        k = rnd.randint(1, min(3, len(cands)))
        chosen = rnd.sample(cands, k=k) if "S" not in case else sorted(case["S"])
        S = case.get("S")
        if S is None:
            S = {}
            for rid in chosen:
                R = rep[rid]
                S[rid] = ["all"] if rnd.random() < 0.25 else sorted(rnd.sample(R, k=max(1, rnd.randint(1, max(1, len(R) - 1)))))
        concrete["S"] = S
        fo = {"fix": {"rule": copy.deepcopy(S)}}  # the tool may write into the selection it is handed; the case keeps its own copy
        fo_all = {"fix": {"rule": {rid: ["all"] for rid in S}}}
        obs = engine.run(new, style, None, props=("C20",), fix_only=fo)
        obs_all = engine.run(new, style, None, props=("C20",), fix_only=fo_all)
        if obs.get("crash") or obs_all.get("crash"):
            lab["crash_in_fix_(C19)"] = 1
        elif "out_text" in obs and "out_text" in obs_all:
            for rid, lns in obs["update_log"]:
                if rid not in S:
                    fail("unlisted_rule_fixed", {"rule": rid, "lines": lns[:5], "selection": S}, rid)
                    break
                if "all" not in S[rid] and not set(lns) <= set(S[rid]):
                    fail("unlisted_line_fixed", {"rule": rid, "lines": sorted(set(lns) - set(S[rid]))[:5], "selection": S}, rid)
                    break
            if not obs["update_log"] and obs["out_text"].split("\n") != [l.rstrip() for l in lines] and [l.rstrip() for l in obs["out_text"].split("\n")] != [l.rstrip() for l in lines]:
                fail("text_changed_although_no_violation_was_handed_to_write_back", {"selection": S})
            lab["selections_monitored"] = 1
            # one line-local, C07-obedient rule with a strict subset
            ll = [rid for rid in cands if groups[rid] & LINE_LOCAL and not groups[rid] & {"structure", "blank_line"} and len(rep[rid]) >= 2]
            if ll:
                rid = rnd.choice(ll) if "single" not in case else case["single"][0]
                R = rep[rid]
                L = sorted(rnd.sample(R, k=rnd.randint(1, len(R) - 1))) if "single" not in case else case["single"][1]
                concrete["single"] = [rid, L]
                o_all = engine.run(new, style, None, props=("C20",), fix_only={"fix": {"rule": {rid: ["all"]}}})
                o_sub = engine.run(new, style, None, props=("C20",), fix_only={"fix": {"rule": {rid: L}}})
                if "out_text" in o_all and "out_text" in o_sub:
                    A = _changed(lines, o_all["out_text"].split("\n"))
                    Bc = _changed(lines, o_sub["out_text"].split("\n"))
                    if A is not None and A == set(R):
                        lab["single_rule_strict_subset_cases"] = 1
                        res["nontrivial"].append(common.h(new, style, rid, L))
                        if Bc != set(L):
                            fail("listed_lines_are_not_exactly_the_changed_lines", {"rule": rid, "listed": L, "changed": sorted(Bc) if Bc is not None else "line count changed", "reported": R}, rid)
                        elif case.get("sseed", 0) % 4 == 0 or "single" in case:
                            # the same selection through a real --fix_only file
                            codeS, sb, _, excS = _cli_fix(new, style, {"fix": {"rule": {rid: L}}}, "s")
                            if excS is None and sb.decode("utf-8", "replace").split("\n")[:-1] != o_sub["out_text"].split("\n"):
                                fail("cli_fix_only_differs_from_api", {"rule": rid, "listed": L}, rid)
                            lab["single_rule_cli_cross_checks"] = 1
                    else:
                        lab["single_rule_not_C07_obedient_on_input"] = 1
    if not res["failures"] and concrete.get("single") and lab.get("single_rule_strict_subset_cases"):
        res["sample"] = {"file": case.get("file"), "style": style, "selection": concrete.get("S"), "single": concrete.get("single")}
    return res


def shrink(case, sig, tier, budget):
    return common.shrink_text_case(run_case, case, sig, tier, budget)
