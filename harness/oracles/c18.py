"""C18 - the token index and every rule's region of interest mirror the token list."""
from harness.oracles import common, fixprops

LEVEL = "exploration"
SEED_SPACE = {"quick": 32, "thorough": 4}
RULE = (
    "cases = (VHDL text, style, configuration): every fixture as is under the default and jcl styles, plus Hypothesis-drawn meaning-preserving "
    "re-layouts (levels 1-4: whitespace/case, line split/join, comments at line breaks, comments in whitespace gaps) of fixtures under style in "
    "{none, jcl, indent_only} and generated configurations; a monitored rule_list.fix() observes every rule application. "
    "oracle, at every _get_tokens_of_interest call of the fix run: oTokenMap.dMap == process_tokens(lAllObjects).dMap (recomputed whenever the list or "
    "the map object changed), every TOI is element-wise identical (is) to lAllObjects[start:start+len], iEndIndex == start+len, its line number is "
    "1 + carriage returns before start; at update() the slices to overwrite are pairwise disjoint. non-trivial = an index check happened after a "
    "token-count-changing fix in the same run; distinct by hash(text, style, configuration)"
)
ASSUMPTIONS = ["process_tokens is trusted as the reference index builder (the property is about staleness, not about its content)"]
PROPS = ("C18",)


def fixed_cases(tier):
    return fixprops.fixed_cases_for(tier)


def n_generated(tier):
    return 300 if tier == "quick" else 6000


def strategy(tier):
    return fixprops.strategy_for(tier)


def _nontrivial(obs, new):
    return obs.get("c18_after_change", 0) > 0


def run_case(case, tier):
    res, obs = fixprops.run_props(case, tier, PROPS, _nontrivial)
    return res


def shrink(case, sig, tier, budget):
    return fixprops.shrink_generic(run_case, case, sig, tier, budget)
