"""C11 - code tags suppress exactly the tagged rules on exactly the tagged lines (reference tag model vs neutral twin)."""
import collections
import random

from hypothesis import strategies as st

from harness import vsgapi
from harness.gen import corpus
from harness.models import tags as tagmodel
from harness.oracles import common, fixprops

parser = vsgapi.parser
LEVEL = "exploration"
RULE = (
    "cases = (accepted fixture or re-layout free of own code tags, generated placement of 1-6 own-line tags '-- vsg_off [ids] [: remark]', "
    "'-- vsg_on [ids]', '-- vsg_disable_next_line ids' (nested, overlapping, bare and with ids, consecutive next-line tags), ids drawn from the rules "
    "that report on the file plus others). The neutral twin has the same comments spelled xsg_. oracle (all phases reported): V(tagged) is a "
    "sub-multiset of V(neutral); every violation of a rule not suppressed (reference model written from docs/code_tags.rst) on any line of its token "
    "span is present; every violation whose span lies wholly on lines where its rule is suppressed is absent; spans touching a tag line itself are "
    "unconstrained. Fix mode: bare vsg_off on line 1 => empty report and text unchanged modulo trailing whitespace; 'vsg_off R' on line 1 => a "
    "monitored --fix run in which no rule of R hands a violation to the write-back. non-trivial = at least one violation suppressed and one kept; distinct by "
    "hash(text, tags)"
)
ASSUMPTIONS = [
    "token span of a violation is taken from VSG's own violation object in the neutral run (C18 checks those spans independently)",
    "placements stay inside documented usage: next-line tags are followed by a code line or another next-line tag; tags are own-line comments",
]
REMARKS = [None, None, "reason", "VSG errors out : here", "x"]


def _ok_file(f):
    t = corpus.text(f)
    return not corpus.structurally_sensitive(t) and 6 <= len(corpus.lines(f)) <= 200


def fixed_cases(tier):
    out = []
    files = [f for f in corpus.files() if _ok_file(f)]
    step = 2 if tier == "quick" else 1
    for f in files[::step]:
        for rep in range(1 if tier == "quick" else 2):
            out.append({"file": f, "level": 0, "lseed": 0, "tseed": common.stable_seed(f, rep), "style": None})
    return out


def n_generated(tier):
    return 2500 if tier == "quick" else 16000


def strategy(tier):
    files = [f for f in corpus.files() if _ok_file(f)]
    return st.fixed_dictionaries(
        {
            "file": common.source_strategy(files),
            "level": st.sampled_from([0, 1, 2, 3]),
            "lseed": st.integers(0, 2**31 - 1),
            "tabs": st.just(False),
            "tseed": st.integers(0, 2**31 - 1),
            "style": st.sampled_from([None, None, "jcl"]),
        }
    )


def _check(lines, style, conf=None):
    f, c, cla = vsgapi.parse(lines, style, [conf] if conf else None)
    rl = vsgapi.make_rules(f, c)
    rl.check_rules(bAllPhases=True)
    ln = []
    l = 1
    for o in f.lAllObjects:
        ln.append(l)
        if isinstance(o, parser.carriage_return):
            l += 1
    out = []
    for r in rl.rules:
        for v in r.violations:
            try:
                s = v.oTokens.get_start_index()
                toks = [t for t in v.oTokens.get_tokens() if not isinstance(t, parser.beginning_of_file)]
                e = s + len(toks) - 1
                span = (ln[s], ln[min(max(e, s), len(ln) - 1)]) if toks else (v.get_line_number(), v.get_line_number())
            except Exception:
                span = (v.get_line_number(), v.get_line_number())
            span = (min(span[0], v.get_line_number()), max(span[1], v.get_line_number()))
            out.append((r.unique_id, v.get_line_number(), str(v.get_solution()), span))
    return out, rl


def gen_tags(rnd, n_lines, rules_with, all_rules):
    """a documented-usage placement of tags"""
    k = rnd.randint(1, 6)
    pos = sorted(rnd.sample(range(0, n_lines + 1), k=min(k, n_lines + 1)))
    tags = []
    pool = list(rules_with) or list(all_rules[:5])

    def ids(n_max=3):
        n = rnd.randint(1, n_max)
        s = [rnd.choice(pool) if rnd.random() < 0.8 else rnd.choice(all_rules) for _ in range(n)]
        return sorted(set(s), key=s.index)

    open_ids = []
    bare_open = False
    for p in pos:
        r = rnd.random()
        t = None
        if p < n_lines and r < 0.25:
            t = {"at": p, "kind": "next", "ids": ids(2)}
            if rnd.random() < 0.3:
                tags.append(dict(t, remark=rnd.choice(REMARKS), sp=1, indent=rnd.choice([0, 0, 2, 4])))
                t = {"at": p, "kind": "next", "ids": ids(2)}
        elif bare_open and r < 0.6:
            t = {"at": p, "kind": "on", "ids": []}
            bare_open = False
            open_ids = []
        elif open_ids and r < 0.6:
            if rnd.random() < 0.5:
                sub = rnd.sample(open_ids, k=rnd.randint(1, len(open_ids)))
                t = {"at": p, "kind": "on", "ids": sub}
                open_ids = [x for x in open_ids if x not in sub]
            else:
                t = {"at": p, "kind": "on", "ids": []}
                open_ids = []
                bare_open = False
        elif r < 0.8:
            i = ids(3)
            t = {"at": p, "kind": "off", "ids": i}
            open_ids = sorted(set(open_ids) | set(i))
        else:
            t = {"at": p, "kind": "off", "ids": []}
            bare_open = True
        t["remark"] = rnd.choice(REMARKS)
        t["sp"] = rnd.choice([1, 1, 2])
        t["indent"] = rnd.choice([0, 0, 2, 4])
        tags.append(t)
    return tags


_ALLRULES = {}


def run_case(case, tier):
    if "text" in case:
        new = case["text"]
    else:
        _, new, _, _ = common.realise_layout(case)
    style = case.get("style")
    res = {"labels": {}, "nontrivial": [], "failures": []}
    lab = res["labels"]
    lines = new.split("\n")
    if "vsg_" in new:
        lab["skipped_has_own_tags"] = 1
        return res
    try:
        base, rl = _check(lines, style)
    except common.exceptions.ClassifyError:
        lab["rejected_by_vsg"] = 1
        return res
    except Exception:
        lab["crash_in_check_(C19)"] = 1
        return res
    if style not in _ALLRULES:
        _ALLRULES[style] = sorted(r.unique_id for r in rl.rules if not r.disable)
    rules_with = sorted(set(b[0] for b in base))
    if "tags" in case:
        tags = case["tags"]
    else:
        rnd = random.Random(case["tseed"])
        tags = gen_tags(rnd, len(lines), rules_with, _ALLRULES[style])
    # a configuration that touches how violations are built (user_error_message) or which rules run, same for both twins
    if "conf" in case:
        conf = case["conf"]
    else:
        crnd = random.Random(case.get("tseed", 0) + 17)
        conf = None
        r = crnd.random()
        if r < 0.35 and rules_with:
            conf = {"rule": {rid: {"user_error_message": "see the project guideline"} for rid in crnd.sample(rules_with, k=min(len(rules_with), crnd.randint(1, 4)))}}
        elif r < 0.45:
            conf = {"rule": {"global": {"user_error_message": "guideline 4.2"}}}
    concrete = {"text": new, "style": style, "tags": tags, "conf": conf}
    if conf:
        lab["with_user_error_message"] = 1
    tagged, ev = tagmodel.build(lines, tags, "vsg")
    neutral, _ = tagmodel.build(lines, tags, "xsg")
    try:
        vt, _ = _check(tagged, style, conf)
        vn, _ = _check(neutral, style, conf)
    except common.exceptions.ClassifyError:
        lab["tagged_rejected_by_vsg"] = 1
        res["failures"].append({"sig": {"kind": "tagged_variant_rejected"}, "detail": {}, "case": concrete})
        return res
    except Exception:
        lab["crash_in_check_(C19)"] = 1
        return res
    sup, tagline = tagmodel.line_status(len(tagged), ev)
    kt = collections.Counter((a, b, c) for a, b, c, d in vt)
    kn = collections.Counter((a, b, c) for a, b, c, d in vn)
    must = collections.Counter()
    mustnot = collections.Counter()
    n_supp = 0
    n_kept = 0
    for a, b, c, (s, e) in vn:
        rng = range(s, e + 1)
        if any(tagline[x] for x in rng if x < len(tagline)):
            continue
        flags = [tagmodel.suppressed(sup[x], a) for x in rng if x < len(sup) and sup[x] is not None]
        if not flags:
            continue
        if not any(flags):
            must[(a, b, c)] += 1
        elif all(flags):
            mustnot[(a, b, c)] += 1

    def fail(kind, rule, detail):
        res["failures"].append({"sig": {"kind": kind, "rule": rule}, "detail": detail, "case": concrete})

    for k in kt:
        if kt[k] > kn.get(k, 0):
            fail("violation_only_in_tagged_file", k[0], {"violation": k})
            break
    for k, n in must.items():
        if kt.get(k, 0) < n:
            fail("untagged_violation_suppressed", k[0], {"violation": k, "tags": [(ln, t["kind"], t["ids"]) for ln, t in ev]})
            break
    for k, n in mustnot.items():
        if kt.get(k, 0) > kn[k] - n:
            fail("tagged_violation_reported", k[0], {"violation": k, "tags": [(ln, t["kind"], t["ids"]) for ln, t in ev]})
            break
    n_supp = sum(kn.values()) - sum(kt.values())
    n_kept = sum(kt.values())
    lab["tags_placed"] = len(tags)
    for t in tags:
        lab["tag_%s_%s" % (t["kind"], "ids" if t["ids"] else "bare")] = lab.get("tag_%s_%s" % (t["kind"], "ids" if t["ids"] else "bare"), 0) + 1
    lab["violations_suppressed"] = n_supp
    # ---- fix mode relations (a fraction of the cases; always on replay)
    if "tags" in case or (case.get("tseed", 0) % 3 == 0):
        _fix_relations(lines, style, rules_with, res, concrete, fail, lab, case)
    if n_supp > 0 and n_kept > 0:
        res["nontrivial"].append(common.h(new, style, tags))
    if not res["failures"] and n_supp > 0 and n_kept > 0:
        res["sample"] = {"file": case.get("file"), "style": style, "tags": [(ln, t["kind"], t["ids"], t.get("remark")) for ln, t in ev], "violations_neutral": sum(kn.values()), "violations_tagged": n_kept}
    return res


def _fix(lines, style, conf=None):
    f, c, cla = vsgapi.parse(lines, style, [conf] if conf else None)
    rl = vsgapi.make_rules(f, c)
    rl.fix()
    out = f.get_lines()[1:]
    rl.clear_violations()
    rl.check_rules(bAllPhases=True)
    return out, vsgapi.violations_of(rl)


def _fix_relations(lines, style, rules_with, res, concrete, fail, lab, case):
    try:
        # (i) whole file under a bare vsg_off
        wrapped = ["-- vsg_off"] + lines
        out, v = _fix(wrapped, style)
        lab["fix_whole_file_off"] = 1
        if v:
            fail("report_not_empty_under_bare_off", v[0][0], {"violation": v[0]})
        if [l.rstrip() for l in out] != [l.rstrip() for l in wrapped]:
            i = next((i for i, (a, b) in enumerate(zip(out, wrapped)) if a.rstrip() != b.rstrip()), min(len(out), len(wrapped)))
            fail("file_changed_under_bare_off", "?", {"line": i + 1, "before": wrapped[i : i + 1], "after": out[i : i + 1], "n": (len(wrapped), len(out))})
        # (ii) vsg_off R on line 1 == neutral twin with R disabled by configuration
        if rules_with:
            rnd = random.Random(case.get("tseed", 1))
            R = case.get("R") or sorted(rnd.sample(rules_with, k=min(len(rules_with), rnd.randint(1, 3))))
            concrete["R"] = R
            t1 = ["-- vsg_off " + " ".join(R)] + lines
            from harness import engine

            obs = engine.run("\n".join(t1), style, None, props=("C11",))
            lab["fix_off_R_monitored"] = 1
            for rid, lns in obs.get("update_log", []):
                if rid in R:
                    res["failures"].append({"sig": {"kind": "tagged_rule_fixed_something", "site": engine.site_of_id(rid)}, "detail": {"rule": rid, "R": R, "lines": lns[:5]}, "case": concrete})
                    break
    except common.exceptions.ClassifyError:
        lab["fix_variant_rejected"] = 1
    except Exception:
        lab["crash_in_fix_(C19)"] = 1


def shrink(case, sig, tier, budget):
    import time

    from harness import shrink as shr
    from harness.run import sig_str

    want = sig_str(sig)

    def still(tags):
        c = dict(case)
        c["tags"] = tags
        try:
            r = run_case(c, tier)
        except Exception:
            return False
        return any(sig_str(f["sig"]) == want for f in r["failures"])

    if "tags" in case:
        case = dict(case)
        case["tags"] = shr.ddmin(case["tags"], still, time.time() + budget * 0.3)
    return case
