"""Shared pieces of the oracles: case construction from (fixture, layout seed, level), hashing."""
import hashlib
import json
import random
import zlib

from hypothesis import strategies as st

from harness import lexer, vsgapi
from harness.gen import corpus, layout

exceptions = vsgapi.exceptions


def h(*parts):
    return hashlib.sha1(json.dumps(parts, sort_keys=True, default=str).encode()).hexdigest()[:16]


def stable_seed(*parts):
    return zlib.crc32(json.dumps(parts, sort_keys=True).encode()) & 0x7FFFFFFF


class GeneratorFault(Exception):
    """the generator produced something unsound: harness error, never a verdict"""


def realise_layout(case):
    """case: {file, level, lseed, tabs} or concrete {text, edits}. returns (orig_text, new_text, ops, edits)"""
    if "text" in case:
        text = case["text"]
        edits = case.get("edits", [])
        new = layout.apply_edits(text, edits)
        ops = {}
        for i, k, v in edits:
            ops["edit_" + k] = ops.get("edit_" + k, 0) + 1
        return text, new, ops, edits
    text = corpus.text(case["file"])
    level = case.get("level", 0)
    if level == 0:
        return text, text, {}, []
    rnd = random.Random(case["lseed"])
    probs = layout.LEVELS[level]
    if case.get("families"):
        probs = {k: v for k, v in probs.items() if k in case["families"]}
    new, ops, edits = layout.relayout(text, rnd, probs, tabs=case.get("tabs", False), structural_ok=not corpus.structurally_sensitive(text))
    if not layout.self_check(text, new):
        raise GeneratorFault("re-layout changed the code atoms of %s (lseed %s)" % (case["file"], case["lseed"]))
    return text, new, dict(ops), edits


def source_strategy(files, p_design=0.3):
    """fixture paths (D1) mixed with grammar-generated designs (D3, 'design:<seed>')"""
    files = list(files)
    d = st.integers(0, 2**31 - 1).map(lambda s: "design:%d" % s)
    n = max(1, int(round(p_design * 10)))
    return st.one_of(*([st.sampled_from(files)] * (10 - n) + [d] * n))


def layout_case_strategy(files, levels=(1, 2, 3, 4), level_weights=None, p_design=0.3):
    files = list(files)
    lv = st.sampled_from(list(levels)) if not level_weights else st.sampled_from([l for l, w in zip(levels, level_weights) for _ in range(w)])
    return st.fixed_dictionaries(
        {
            "file": source_strategy(files, p_design),
            "level": lv,
            "lseed": st.integers(0, 2**31 - 1),
            "tabs": st.booleans(),
        }
    )


def structural_ops(ops):
    return sum(v for k, v in ops.items() if k in ("split", "join", "cmt_eol", "cmt_own", "cmt_split", "edit_gap"))


def short(text, n=400):
    return text if len(text) <= n else text[:n] + "…(%d chars)" % len(text)


def shrink_text_case(run_case, case, sig, tier, budget, key="text"):
    """generic: delete lines of case[key] (ddmin) while the same signature is still reported"""
    import time

    from harness import shrink as shr
    from harness.run import sig_str, time_limit, CaseTimeout

    want = sig_str(sig)
    deadline = time.time() + budget

    def still(txt):
        c = dict(case)
        c[key] = txt
        try:
            with time_limit(60):
                r = run_case(c, tier)
        except CaseTimeout:
            return False
        except Exception:
            return False
        return any(sig_str(f["sig"]) == want for f in r.get("failures", []))

    if key not in case or not isinstance(case[key], str):
        return case
    new = shr.shrink_lines(case[key], still, deadline)
    c = dict(case)
    c[key] = new
    return c
