"""C10 - a rule that has just fixed a file has nothing left to fix."""
from harness.oracles import common, fixprops

LEVEL = "exploration"
SEED_SPACE = {"quick": 32, "thorough": 4}
RULE = (
    "cases = (VHDL text, style, configuration): every fixture as is under the default and jcl styles, plus Hypothesis-drawn meaning-preserving "
    "re-layouts (levels 1-4: whitespace/case, line split/join, comments at line breaks, comments in whitespace gaps) of fixtures under style in "
    "{none, jcl, indent_only} and generated configurations; a monitored rule_list.fix() observes every rule application. "
    "oracle: immediately after a rule application changed the model, the same rule's fix is invoked again with the same arguments: text and token "
    "count must not change (remaining violations are then by definition the ones the rule cannot repair). After the first failure in a case the "
    "probe is switched off for the rest of that case. non-trivial = at least one probe was made; distinct by hash(text, style, configuration)"
)
ASSUMPTIONS = ["the probe (second fix call) is side-effect free whenever the property holds"]
PROPS = ("C10",)


def fixed_cases(tier):
    return fixprops.fixed_cases_for(tier)


def n_generated(tier):
    return 300 if tier == "quick" else 6000


def strategy(tier):
    return fixprops.strategy_for(tier)


def _nontrivial(obs, new):
    return obs.get("c10_probes", 0) > 0


def run_case(case, tier):
    res, obs = fixprops.run_props(case, tier, PROPS, _nontrivial)
    return res


def shrink(case, sig, tier, budget):
    return fixprops.shrink_generic(run_case, case, sig, tier, budget)
