"""C05 - token classification does not depend on layout, comments or letter case (metamorphic)."""
import time

from harness import lexer, vsgapi
from harness.gen import corpus, layout
from harness.oracles import common
from harness import shrink as shr

LEVEL = "exploration"
RULE = (
    "cases = (accepted VHDL text x, meaning-preserving re-layout t) with x from the repository fixtures (and generated designs) and t drawn "
    "by Hypothesis (level 1: whitespace resize + case; 2: + line split/join at whitespace; 3: + comments at existing line breaks; 4: + comment "
    "and line break in whitespace gaps; for half of the level 3-4 cases additionally a run of 5-17 comment lines in one randomly chosen whitespace gap); oracle: t(x) accepted and the class sequence, parenthesis pairing and hierarchy of non-whitespace, "
    "non-comment tokens is identical; non-trivial = t performed at least one split/join/comment insertion; distinct by hash(x, t(x))"
)
ASSUMPTIONS = [
    "independent lexer (harness/lexer.py) decides where gaps are; self-check code_atoms(t(x)) == code_atoms(x) on every case",
    "files containing pragmas, code tags, vhdl_comp_off regions, delimited comments or preprocessor lines only get whitespace/case re-layout",
]
_ROLE_CACHE = {}


def roles_of(f):
    out = []
    for o in f.lAllObjects:
        if isinstance(o, vsgapi.WS_CLASSES) or isinstance(o, vsgapi.COMMENT_CLASSES):
            continue
        out.append((type(o).__module__.replace("vsg.", "") + "." + type(o).__name__, o.get_value().lower(), getattr(o, "iId", None) is not None, getattr(o, "hierarchy", None)))
    return out


def paren_pairs(f):
    """positions (among code tokens) paired by iId"""
    ids = {}
    k = 0
    out = []
    for o in f.lAllObjects:
        if isinstance(o, vsgapi.WS_CLASSES) or isinstance(o, vsgapi.COMMENT_CLASSES):
            continue
        i = getattr(o, "iId", None)
        if i is not None:
            if i in ids:
                out.append((ids.pop(i), k))
            else:
                ids[i] = k
        k += 1
    return sorted(out)


def fixed_cases(tier):
    out = []
    files = corpus.files()
    for f in files:
        levels = (2, 4) if tier == "quick" else (1, 2, 3, 4)
        for lv in levels:
            for rep in range(1 if tier == "quick" else 3):
                out.append({"file": f, "level": lv, "lseed": common.stable_seed(f, lv, rep), "tabs": rep == 1})
    return out


def n_generated(tier):
    return 12000 if tier == "quick" else 150000


def strategy(tier):
    return common.layout_case_strategy(corpus.files(), levels=(1, 2, 3, 4), level_weights=(1, 2, 2, 3))


def _parse(text):
    return vsgapi.parse(text.split("\n"))[0]


def run_case(case, tier):
    text, new, ops, edits = common.realise_layout(case)
    labels = {}
    res = {"labels": labels, "nontrivial": [], "failures": []}
    key = case.get("file") or common.h(text)
    if key in _ROLE_CACHE:
        r0 = _ROLE_CACHE[key]
    else:
        try:
            f0 = _parse(text)
            r0 = (roles_of(f0), paren_pairs(f0))
        except common.exceptions.ClassifyError:
            r0 = None
        _ROLE_CACHE[key] = r0
    if r0 is None:
        labels["original_rejected_by_vsg"] = 1
        return res
    labels["level_%d" % case.get("level", -1)] = 1
    labels["source_generated_design" if str(case.get("file", "")).startswith("design:") else "source_fixture_or_replay"] = 1
    for k, v in ops.items():
        labels["op_" + k] = v
    concrete = {"text": text, "edits": edits}

    def fail(kind, extra, detail):
        sig = {"kind": kind}
        sig.update(extra)
        res["failures"].append({"sig": sig, "detail": detail, "case": concrete})

    def compare(new, fail):
        try:
            f1 = _parse(new)
        except common.exceptions.ClassifyError as e:
            fail("relayout_rejected", {}, {"message": str(getattr(e, "message", e))[:300]})
            return False
        except Exception as e:
            fr = vsgapi.innermost_vsg_frame(e)
            fail("relayout_crash", {"exc": type(e).__name__, "where": "%s:%s" % (fr[0], fr[1])}, {"message": str(e)[:200]})
            return False
        r1 = (roles_of(f1), paren_pairs(f1))
        a, b = r0[0], r1[0]
        if [x[1] for x in a] != [x[1] for x in b]:
            # VSG tokenised the two texts into different code tokens although the lexer says the atoms agree
            i = next((i for i, (x, y) in enumerate(zip(a, b)) if x[1] != y[1]), min(len(a), len(b)))
            fail("token_sequence_changed", {}, {"at": i, "orig": [x[1] for x in a[max(0, i - 3) : i + 3]], "new": [x[1] for x in b[max(0, i - 3) : i + 3]]})
            return False
        for i, (x, y) in enumerate(zip(a, b)):
            if x[0] != y[0]:
                fail("role_changed", {"from": x[0], "to": y[0]}, {"at": i, "context": [t[1] for t in a[max(0, i - 4) : i + 3]]})
                break
            if x[2] != y[2] or x[3] != y[3]:
                fail("attr_changed", {"role": x[0]}, {"at": i, "orig": x[2:], "new": y[2:], "context": [t[1] for t in a[max(0, i - 4) : i + 3]]})
                break
        else:
            if r0[1] != r1[1]:
                fail("paren_pairing_changed", {}, {})
        return True

    compare(new, fail)
    # a long run of own-line comments in one whitespace gap (a bounded look-ahead counted in raw list positions would run out)
    if "lseed" in case and case.get("level", 0) >= 3 and not res["failures"] and not corpus.structurally_sensitive(text):
        import random

        rnd = random.Random(case["lseed"] ^ 0x5EED)
        if rnd.random() < 0.5:
            atoms = lexer.lex(new)
            cand = [i for i in range(1, len(atoms)) if atoms[i].kind not in ("comment", "pre", "dcomment") and atoms[i - 1].kind not in ("comment", "pre", "dcomment") and new[atoms[i - 1].end : atoms[i].start] != ""]
            if cand:
                i = rnd.choice(cand)
                n = rnd.randint(4, 16)
                ind = " " * rnd.randint(0, 6)
                run = [i, "gap", " -- r0\n" + "".join("%s-- r%d\n" % (ind, k + 1) for k in range(n)) + ind]
                new2 = layout.apply_edits(new, [run], atoms)
                if layout.self_check(new, new2):
                    concrete2 = {"text": new, "edits": [run]}
                    labels["op_comment_run"] = 1
                    labels["comment_run_len_%s" % ("4-8" if n <= 8 else "9-16")] = 1

                    def fail2(kind, extra, detail):
                        sig = {"kind": kind}
                        sig.update(extra)
                        res["failures"].append({"sig": sig, "detail": detail, "case": concrete2})

                    compare(new2, fail2)
    if common.structural_ops(ops) > 0:
        res["nontrivial"].append(common.h(key, new))
    if not res["failures"]:
        res["sample"] = {"file": case.get("file"), "level": case.get("level"), "ops": ops, "relayout_excerpt": common.short(new, 300)}
    return res


def shrink(case, sig, tier, budget):
    deadline = time.time() + budget
    from harness.run import sig_str

    want = sig_str(sig)

    def still(edits):
        r = run_case({"text": case["text"], "edits": edits}, tier)
        return any(sig_str(f["sig"]) == want for f in r["failures"])

    edits = shr.ddmin(case["edits"], still, deadline)
    return {"text": case["text"], "edits": edits}
