"""C07 - a rule's fix touches exactly the lines that rule reported."""
from harness.oracles import common, fixprops

LEVEL = "exploration"
SEED_SPACE = {"quick": 32, "thorough": 4}
RULE = (
    "cases = (VHDL text, style, configuration): every fixture as is under the default and jcl styles, plus Hypothesis-drawn meaning-preserving "
    "re-layouts (levels 1-4: whitespace/case, line split/join, comments at line breaks, comments in whitespace gaps) of fixtures under style in "
    "{none, jcl, indent_only} and generated configurations; a monitored rule_list.fix() observes every rule application. "
    "oracle: for every application of a whitespace, indent, alignment or case rule (not structure, not blank_line): the set of lines whose text changed "
    "equals the set of line numbers of the violations the rule handed to vhdlFile.update, the number of lines is unchanged, and every reported line "
    "number lies in 1..len(file). non-trivial = a line-local rule changed some but not all lines; distinct by hash(text, style, configuration)"
)
ASSUMPTIONS = ["reported lines are read from the violation objects the rule passes to vhdlFile.update (what --fix acts on)"]
PROPS = ("C07",)


def fixed_cases(tier):
    return fixprops.fixed_cases_for(tier)


def n_generated(tier):
    return 300 if tier == "quick" else 6000


def strategy(tier):
    return fixprops.strategy_for(tier)


def _nontrivial(obs, new):
    return obs.get("labels", {}).get("c07_nontrivial", 0) > 0


def run_case(case, tier):
    res, obs = fixprops.run_props(case, tier, PROPS, _nontrivial)
    return res


def shrink(case, sig, tier, budget):
    return fixprops.shrink_generic(run_case, case, sig, tier, budget)
