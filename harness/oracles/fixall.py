"""Developer triage driver (not a registered check): all monitored-fix oracles at once, failures tagged with their property."""
from harness import engine
from harness.oracles import common, fixprops

LEVEL = "exploration"
RULE = "triage of all monitored-fix oracles"
PROPS = tuple(p for p in engine.ALL_PROPS if p != "C10")
TOLERATE_UNCONFIRMED = True


def fixed_cases(tier):
    return fixprops.fixed_cases_for(tier, styles=(None, "jcl", "indent_only"))


def n_generated(tier):
    return 20000 if tier == "quick" else 200000


def strategy(tier):
    return fixprops.strategy_for(tier)


def run_case(case, tier):
    text, new, ops, edits = common.realise_layout(case)
    style = case.get("style")
    conf = case.get("conf")
    res = {"labels": {}, "nontrivial": [], "failures": []}
    obs = engine.run(new, style, [conf] if conf else None, props=PROPS)
    concrete = {"text": new, "style": style, "conf": conf}
    for p in PROPS:
        for f in obs["failures"].get(p, []):
            sig = dict(f["sig"])
            sig["prop"] = p
            res["failures"].append({"sig": sig, "detail": f["detail"], "case": concrete})
    if obs.get("fired"):
        res["nontrivial"].append(common.h(new, style, conf))
    return res
