"""Shared driver of the properties decided on a monitored --fix run (C01 C02 C03 C07 C08 C09 C10 C18 C19a)."""
import json

from hypothesis import strategies as st

from harness import engine, vsgapi
from harness.gen import corpus
from harness.oracles import common

STYLES = (None, "jcl", "indent_only")
MAXLINES = {"quick": 160, "thorough": 600}


def fixed_cases_for(tier, styles=(None, "jcl"), step=1):
    out = []
    for i, f in enumerate(corpus.files()[::step]):
        if len(corpus.lines(f)) > MAXLINES[tier]:
            continue
        for j, s in enumerate(styles):
            if tier == "quick" and j > 0 and i % 3:
                continue  # quick: every fixture under the first style, every third one under the others
            out.append({"file": f, "level": 0, "lseed": 0, "style": s, "conf": None})
    # seed-independent re-layouts (one per fixture, level rotating 1..4, layout seed derived from the file name): same cases on every run
    for i, f in enumerate(corpus.files()[::step]):
        if len(corpus.lines(f)) > MAXLINES[tier] or (tier == "quick" and i % 2):
            continue
        reps = [(i // 2) % 3] if tier == "quick" else [0, 1, 2]
        for rep in reps:
            lv = 1 + (i + rep) % 4
            out.append({"file": f, "level": lv, "lseed": common.stable_seed(f, lv, rep), "tabs": rep == 2, "style": (None, "jcl", "indent_only")[rep % 3], "conf": None})
    out.extend(option_sweep_cases(tier))
    out.extend(themed_design_cases(tier))
    return out


def themed_design_cases(tier):
    """seed-independent: grammar-generated designs under coordinated, project-style configurations (same cases on every run)"""
    import random

    from harness.gen import configs

    out = []
    n = 400 if tier == "quick" else 3000
    for i in range(n):
        conf = configs.themed_conf(random.Random(50_000 + i))
        out.append({"file": "design:%d" % (70_000 + i), "level": i % 3, "lseed": common.stable_seed("themed", i), "tabs": False, "style": None, "conf": conf})
    return out


def option_sweep_cases(tier, quick_step=8):
    """every documented value of every rule option (tables/option_domains.json) on that rule's own fixtures; quick: every n-th"""
    from harness.gen import configs

    br = configs.by_rule()
    out = []
    n = 0
    for rid in sorted(br):
        name, ident = rid.rsplit("_", 1)
        cand = [f for f in corpus.files() if ("/rule_%s_test_input" % ident) in f and f.endswith(".vhd") and ("/%s/" % name in f or "/%s_statement/" % name in f or "/%s_definition/" % name in f or "/%ss/" % name in f)]
        cand = [f for f in cand if len(corpus.lines(f)) <= MAXLINES[tier]]
        if not cand:
            continue
        for opt in sorted(br[rid]):
            if opt == "regex":
                continue
            for v in br[rid][opt]["values"]:
                ent = {opt: v, "disable": False}
                if opt == "case" and v == "regex":
                    if "regex" not in br[rid]:
                        continue
                    ent["regex"] = br[rid]["regex"]["values"][0]
                n += 1
                if tier == "quick" and n % quick_step:
                    continue
                f = cand[n % len(cand)]
                out.append({"file": f, "level": 0, "lseed": 0, "style": None, "conf": {"rule": {rid: ent}}})
    return out


def strategy_for(tier, level_weights=(3, 3, 3, 2), max_lines=None, conf_strategy=None):
    files = corpus.small_files(max_lines or MAXLINES[tier])
    base = common.layout_case_strategy(files, levels=(1, 2, 3, 4), level_weights=level_weights)
    from harness.gen import configs

    cs = conf_strategy if conf_strategy is not None else configs.conf_strategy()

    def mk(b, style, conf):
        b = dict(b)
        b["style"] = style
        b["conf"] = conf
        return b

    return st.builds(mk, base, st.sampled_from(STYLES), cs)


def run_props(case, tier, props, nontrivial_fn, sample_fn=None):
    """returns the runner result for the given property ids (first one is the reporting property)"""
    text, new, ops, edits = common.realise_layout(case)
    style = case.get("style")
    conf = case.get("conf")
    res = {"labels": {}, "nontrivial": [], "failures": []}
    lab = res["labels"]
    lab["level_%s" % case.get("level", "x")] = 1
    lab["source_generated_design" if str(case.get("file", "")).startswith("design:") else "source_fixture_or_replay"] = 1
    lab["style_%s" % style] = 1
    if conf:
        lab["with_generated_configuration"] = 1
    obs = engine.run(new, style, [conf] if conf else None, props=props)
    concrete = {"text": new, "style": style, "conf": conf}
    if obs.get("rejected"):
        lab["rejected_by_vsg"] = 1
        return res, obs
    if obs.get("config_error"):
        lab["config_rejected_by_vsg"] = 1
        return res, obs
    if obs.get("oracle_disagreement"):
        lab["oracle_disagreement"] = 1
        return res, obs
    if obs.get("crash"):
        lab["crash_in_fix"] = 1
    for k, v in obs["labels"].items():
        lab[k] = lab.get(k, 0) + v
    for p in props:
        for f in obs["failures"].get(p, []):
            if p != props[0]:
                continue
            res["failures"].append({"sig": f["sig"], "detail": f["detail"], "case": concrete})
    key = common.h(new, style, conf)
    if nontrivial_fn(obs, new):
        res["nontrivial"].append(key)
    lab["rule_applications_that_changed_text"] = sum(obs.get("fired", {}).values())
    if not res["failures"] and obs.get("changed") and sample_fn is not False:
        res["sample"] = {
            "file": case.get("file"),
            "level": case.get("level"),
            "style": style,
            "conf": conf,
            "input_excerpt": common.short(new, 240),
            "rules_that_changed_text": sorted(obs.get("fired", {}))[:25],
        }
        if sample_fn:
            res["sample"].update(sample_fn(obs))
    return res, obs


def shrink_generic(run_case, case, sig, tier, budget):
    c = {"text": case["text"], "style": case.get("style"), "conf": case.get("conf")}
    c = common.shrink_text_case(run_case, c, sig, tier, budget * 0.7)
    # then drop configuration keys
    conf = c.get("conf")
    if conf and isinstance(conf.get("rule"), dict):
        import time

        from harness import shrink as shr
        from harness.run import sig_str

        want = sig_str(sig)
        keys = sorted(conf["rule"].keys())

        def still(ks):
            cc = dict(c)
            cc["conf"] = dict(conf)
            cc["conf"]["rule"] = {k: conf["rule"][k] for k in ks}
            try:
                r = run_case(cc, tier)
            except Exception:
                return False
            return any(sig_str(f["sig"]) == want for f in r.get("failures", []))

        ks = shr.ddmin(keys, still, time.time() + budget * 0.3)
        c["conf"] = dict(conf)
        c["conf"]["rule"] = {k: conf["rule"][k] for k in ks}
    return c
