"""C06 - analysis is read-only, repeatable and rules do not interfere (check mode relations)."""
import copy
import random

from hypothesis import strategies as st

from harness import vsgapi
from harness.gen import corpus
from harness.oracles import common, fixprops

LEVEL = "exploration"
RULE = (
    "cases = (accepted VHDL text [fixture or Hypothesis-drawn re-layout], style in {none, jcl, indent_only}, generated configuration incl. a random set of "
    "default-disabled rules switched on, a random subset D of the enabled rules, a random permutation of the rule list); history: check all phases; "
    "check again; fresh file checked with D disabled through the configuration; fresh file checked with the rule list permuted. oracle: token "
    "(class, value) sequence and emitted text identical before/after check; violation multiset {(rule, line, solution)} identical on repeat; "
    "V(c with D disabled) == V(c) minus D; permutation changes nothing. non-trivial = V non-empty and D contains a rule that had violations; "
    "distinct by hash(text, style, configuration, D)"
)
ASSUMPTIONS = ["rules are disabled through the real configuration path (rule: {id: {disable: true}})", "a crash during check is C19's subject and only counted here"]


def fixed_cases(tier):
    out = []
    step = 2 if tier == "quick" else 1
    for f in corpus.files()[::step]:
        if len(corpus.lines(f)) > fixprops.MAXLINES[tier]:
            continue
        for s in (None, "jcl"):
            out.append({"file": f, "level": 0, "lseed": 0, "style": s, "conf": None, "dseed": common.stable_seed(f, s)})
    return out


def n_generated(tier):
    return 2500 if tier == "quick" else 16000


def strategy(tier):
    base = fixprops.strategy_for(tier)

    def add(b, d):
        b = dict(b)
        b["dseed"] = d
        return b

    return st.builds(add, base, st.integers(0, 2**31 - 1))


def _viol(rl):
    out = {}
    for r in rl.rules:
        if r.violations:
            out[r.unique_id] = sorted((v.get_line_number(), str(v.get_solution())) for v in r.violations)
    return out


def _merge_conf(conf, extra_rules):
    c = copy.deepcopy(conf) if conf else {}
    c.setdefault("rule", {})
    for k, v in extra_rules.items():
        c["rule"].setdefault(k, {})
        c["rule"][k].update(v)
    return c


def _mk(lines, style, conf):
    f, c, cla = vsgapi.parse(lines, style, [conf] if conf else None)
    rl = vsgapi.make_rules(f, c)
    return f, rl


def run_case(case, tier):
    if "text" in case:
        new = case["text"]
    else:
        _, new, _, _ = common.realise_layout(case)
    style, conf = case.get("style"), case.get("conf")
    res = {"labels": {}, "nontrivial": [], "failures": []}
    lab = res["labels"]
    lines = new.split("\n")
    rnd = random.Random(case["dseed"])
    concrete = {"text": new, "style": style, "conf": conf, "dseed": case["dseed"]}

    def fail(kind, rule, detail):
        res["failures"].append({"sig": {"kind": kind, "rule": rule}, "detail": detail, "case": concrete})

    try:
        f0, rl0 = _mk([""], style, conf)
    except common.exceptions.ConfigurationError:
        lab["config_rejected_by_vsg"] = 1
        return res
    # switch on a random subset of the default-disabled rules for all runs of this case
    dis = sorted(r.unique_id for r in rl0.rules if r.disable and not r.deprecated)
    E = rnd.sample(dis, k=rnd.randint(0, min(8, len(dis)))) if "E" not in case else case["E"]
    concrete["E"] = E
    conf1 = _merge_conf(conf, {r: {"disable": False} for r in E}) if E else conf
    try:
        f, rl = _mk(lines, style, conf1)
    except common.exceptions.ClassifyError:
        lab["rejected_by_vsg"] = 1
        return res
    except common.exceptions.ConfigurationError:
        lab["config_rejected_by_vsg"] = 1
        return res
    snap = [(type(o), o.value) for o in f.lAllObjects]
    text0 = f.get_lines()
    try:
        rl.check_rules(bAllPhases=True)
    except Exception:
        lab["crash_in_check_(C19)"] = 1
        return res
    v1 = _viol(rl)
    snap2 = [(type(o), o.value) for o in f.lAllObjects]
    if snap != snap2 or f.get_lines() != text0:
        i = next((i for i, (a, b) in enumerate(zip(snap, snap2)) if a != b), min(len(snap), len(snap2)))
        fail("check_changed_tokens", "?", {"at": i, "before": [str(x) for x in snap[i : i + 2]], "after": [str(x) for x in snap2[i : i + 2]]})
        return res
    rl.clear_violations()
    rl.check_rules(bAllPhases=True)
    v2 = _viol(rl)
    for k in sorted(set(v1) | set(v2)):
        if v1.get(k) != v2.get(k):
            fail("not_repeatable", k, {"first": v1.get(k, [])[:3], "second": v2.get(k, [])[:3]})
            break
    enabled = sorted(r.unique_id for r in rl.rules if not r.disable)
    with_v = sorted(v1)
    if "D" in case:
        D = case["D"]
    else:
        D = set(rnd.sample(enabled, k=len(enabled) // rnd.choice([2, 3, 10])))
        if with_v:
            D |= set(rnd.sample(with_v, k=max(1, len(with_v) // 2)))
        D = sorted(D)
    concrete["D"] = D
    conf3 = _merge_conf(conf1, {r: {"disable": True} for r in D})
    try:
        f3, rl3 = _mk(lines, style, conf3)
        rl3.check_rules(bAllPhases=True)
        v3 = _viol(rl3)
        exp = {k: v for k, v in v1.items() if k not in D}
        for k in sorted(set(v3) | set(exp)):
            if v3.get(k) != exp.get(k):
                fail("report_depends_on_other_rules_being_enabled" if k not in D else "disabled_rule_still_reports", k, {"with_D_disabled": v3.get(k, [])[:3], "expected": exp.get(k, [])[:3], "n_disabled": len(D)})
                break
    except Exception:
        lab["crash_in_check_(C19)"] = 1
    try:
        f4, rl4 = _mk(lines, style, conf1)
        perm = list(rl4.rules)
        rnd.shuffle(perm)
        rl4.rules = perm
        rl4.check_rules(bAllPhases=True)
        v4 = _viol(rl4)
        for k in sorted(set(v4) | set(v1)):
            if v4.get(k) != v1.get(k):
                fail("report_depends_on_analysis_order", k, {"permuted": v4.get(k, [])[:3], "original": v1.get(k, [])[:3]})
                break
    except Exception:
        lab["crash_in_check_(C19)"] = 1
    lab["style_%s" % style] = 1
    lab["rules_with_violations"] = len(v1)
    lab["default_disabled_rules_enabled"] = len(E)
    if v1 and any(k in v1 for k in D):
        res["nontrivial"].append(common.h(new, style, conf, D, E))
    if not res["failures"] and v1:
        res["sample"] = {"file": case.get("file"), "level": case.get("level"), "style": style, "enabled_extra": E[:5], "n_disabled": len(D), "rules_with_violations": sorted(v1)[:10]}
    return res


def shrink(case, sig, tier, budget):
    return common.shrink_text_case(run_case, case, sig, tier, budget)
