"""C01 - fixing never changes what the VHDL means (per-rule-application code-atom equality modulo documented edits)."""
from harness.oracles import common, fixprops

LEVEL = "exploration"
SEED_SPACE = {"quick": 32, "thorough": 4}
RULE = (
    "cases = (VHDL text, style, configuration): every fixture as is under the default and jcl styles, plus Hypothesis-drawn meaning-preserving "
    "re-layouts (levels 1-4) of fixtures under style in {none, jcl, indent_only} and generated configurations; a monitored rule_list.fix() is run and for "
    "every rule application that changed the text the case-folded code-atom sequence (independent lexer; char/string literals and extended identifiers "
    "exact) must be equal before and after, except for the edit class documented for that rule (tables/structural_allowlist.json, exact alignment "
    "search); cleanup steps between rules and the written text are compared too. non-trivial = at least one rule application changed the text; "
    "distinct by hash(text, style, configuration)"
)
ASSUMPTIONS = [
    "independent lexer; inputs on which lexer and VSG disagree about atoms are set aside and counted (oracle_disagreement)",
    "structural allow-list transcribed from docs/*_rules.rst; an unlisted rule gets the empty class (reported if it changes atoms)",
]
PROPS = ("C01",)


def fixed_cases(tier):
    return fixprops.fixed_cases_for(tier)


def n_generated(tier):
    return 300 if tier == "quick" else 6000


def strategy(tier):
    return fixprops.strategy_for(tier)


def run_case(case, tier):
    res, obs = fixprops.run_props(case, tier, PROPS, lambda obs, new: bool(obs.get("fired")), lambda obs: {"allow_listed_rule_fired": obs.get("allow_fired")})
    if obs.get("allow_fired"):
        res["labels"]["allow_listed_structural_rule_fired"] = 1
    return res


def shrink(case, sig, tier, budget):
    return fixprops.shrink_generic(run_case, case, sig, tier, budget)
