"""C17 - the emitted configuration reproduces the run (-oc / -rc round trip)."""
import json
import os
import random

from hypothesis import strategies as st

from harness import vsgapi
from harness.gen import configs, corpus
from harness.oracles import common

LEVEL = "exploration"
RULE = (
    "cases = (style in {none, jcl, indent_only}, a generated stack of 0-2 configuration files with documented option values / disable / fixable / "
    "indent_size / severity at global, group and rule level, an input file). Through the in-process CLI: oc1 = -oc under (style, stack); "
    "oc2 = -oc under '-c oc1' without style; oracle: oc1 == oc2 as JSON; the all-phases JSON report and the --fix result of the input under "
    "(style, stack) equal those under '-c oc1'; for sampled rules the fragment printed by -rc, fed back through -c, prints the identical fragment. "
    "non-trivial = the stack changes at least one attribute away from the style default; distinct by hash(style, stack, input)"
)
ASSUMPTIONS = ["option values are drawn from tables/option_domains.json (transcribed from docs/configuring_*.rst and the rule docs)"]


LIST_OPTIONS = ("exceptions", "case_exceptions", "prefix_exceptions", "suffix_exceptions", "prefixes", "suffixes", "keywords", "names", "patterns")


def fixed_cases(tier):
    out = []
    files = corpus.small_files(60)
    for i, s in enumerate([None, "jcl", "indent_only"]):
        out.append({"style": s, "cseed": 0, "file": files[i * 7 % len(files)], "plain": True})
    # every list-valued option with a value whose order is not the sorted order, on the rule's own fixture: the emitted
    # configuration must keep the list as given (order can matter: first match wins, lists are quoted in solutions)
    dom = configs.domains()
    for opt in LIST_OPTIONS:
        n = 0
        for ent in dom.get(opt, []):
            vals = [v for v in ent["values"] if isinstance(v, list) and len(v) >= 2 and v != sorted(v)]
            if not vals:
                vals = [list(reversed(sorted(v))) for v in ent["values"] if isinstance(v, list) and len(v) >= 2][:1]
            for rid in ent["rules"][: (2 if tier == "quick" else 6)]:
                name, ident = rid.rsplit("_", 1)
                cand = [f for f in corpus.files() if f.endswith("/rule_%s_test_input.vhd" % ident) and ("/%s/" % name in f or "/%s_statement/" % name in f or "/%s_definition/" % name in f)]
                if not cand or not vals or len(corpus.lines(cand[0])) > 200:
                    continue
                out.append({"style": None, "cseed": n, "file": cand[0], "stack": [{"rule": {rid: {opt: vals[n % len(vals)], "disable": False}}}]})
                n += 1
                if n >= (3 if tier == "quick" else 10):
                    break
            if n >= (3 if tier == "quick" else 10):
                break
    return out


def n_generated(tier):
    return 400 if tier == "quick" else 2400


def strategy(tier):
    files = corpus.small_files(60)
    return st.fixed_dictionaries({"style": st.sampled_from([None, None, "jcl", "indent_only"]), "cseed": st.integers(0, 2**31 - 1), "file": st.sampled_from(files)})


def _run(args):
    code, out, err, exc = vsgapi.run_cli(args)
    return code, out, err, exc


def run_case(case, tier):
    res = {"labels": {}, "nontrivial": [], "failures": []}
    lab = res["labels"]
    rnd = random.Random(case["cseed"])
    style = case["style"]
    d = os.path.join(vsgapi.scratch_dir(), "c17_%d" % os.getpid())
    os.makedirs(d, exist_ok=True)
    if "stack" in case:
        stack = case["stack"]
    elif case.get("plain"):
        stack = []
    else:
        stack = configs.random_stack(rnd, style)
    text = case.get("text") or corpus.text(case["file"])
    concrete = {"style": style, "cseed": case["cseed"], "stack": stack, "text": text}
    sargs = (["--style", style] if style else []) + ((["-c"] + vsgapi.write_conf_files(stack)) if stack else [])

    def fail(kind, detail, rule=None):
        sig = {"kind": kind}
        if rule:
            sig["rule"] = rule
        res["failures"].append({"sig": sig, "detail": detail, "case": concrete})

    oc1, oc2 = os.path.join(d, "oc1.json"), os.path.join(d, "oc2.json")
    for p in (oc1, oc2):
        if os.path.exists(p):
            os.remove(p)
    code, out, err, exc = _run(sargs + ["-oc", oc1])
    if exc is not None:
        fr = vsgapi.innermost_vsg_frame(exc)
        fail("oc_crashes", {"exc": type(exc).__name__, "where": "%s:%s" % (fr[0], fr[1])})
        return res
    if code != 0 or not os.path.exists(oc1):
        lab["stack_rejected_by_vsg"] = 1
        return res
    code, out, err, exc = _run(["-c", oc1, "-oc", oc2])
    if exc is not None:
        fr = vsgapi.innermost_vsg_frame(exc)
        fail("emitted_configuration_crashes_vsg", {"exc": type(exc).__name__, "where": "%s:%s" % (fr[0], fr[1]), "msg": str(exc)[:200]})
        return res
    if code != 0 or not os.path.exists(oc2):
        fail("emitted_configuration_rejected", {"exit": code, "out": (out + err)[:300]})
        return res
    j1, j2 = json.load(open(oc1)), json.load(open(oc2))
    if j1 != j2:
        diffs = []
        for rid in sorted(set(j1.get("rule", {})) | set(j2.get("rule", {}))):
            a, b = j1.get("rule", {}).get(rid), j2.get("rule", {}).get(rid)
            if a != b:
                ks = [k for k in sorted(set(a or {}) | set(b or {})) if (a or {}).get(k) != (b or {}).get(k)]
                diffs.append((rid, ks[:3], [(a or {}).get(k) for k in ks[:3]], [(b or {}).get(k) for k in ks[:3]]))
        other = [k for k in sorted(set(j1) | set(j2)) if k != "rule" and j1.get(k) != j2.get(k)]
        if diffs:
            fail("oc_not_idempotent", {"n_rules": len(diffs), "examples": diffs[:3]}, diffs[0][1][0] if diffs[0][1] else None)
        elif other:
            fail("oc_not_idempotent_section", {"sections": other})
    # ---- behaviour on the input
    fn = os.path.join(d, "x.vhd")
    outs = {}
    for tag, cargs in (("orig", sargs), ("emitted", ["-c", oc1])):
        with open(fn, "w") as fh:
            fh.write(text + "\n")
        js = os.path.join(d, "r_%s.json" % tag)
        code, out, err, exc = _run(["-p", "1", "-f", fn, "-ap", "-js", js] + cargs)
        if exc is not None:
            if tag == "emitted" and "orig" in outs:
                fr = vsgapi.innermost_vsg_frame(exc)
                fail("emitted_configuration_crashes_vsg", {"exc": type(exc).__name__, "where": "%s:%s" % (fr[0], fr[1]), "msg": str(exc)[:200]})
            else:
                lab["crash_(C19)"] = 1
            return res
        try:
            v = sorted((x["rule"], x["linenumber"], str(x["solution"]), x["severity"]) for x in json.load(open(js))["files"][0]["violations"])
        except Exception:
            v = None
        code2, out2, err2, exc2 = _run(["-p", "1", "-f", fn, "--fix"] + cargs)
        if exc2 is not None:
            if tag == "emitted" and "orig" in outs:
                fr = vsgapi.innermost_vsg_frame(exc2)
                fail("emitted_configuration_crashes_vsg", {"exc": type(exc2).__name__, "where": "%s:%s" % (fr[0], fr[1]), "msg": str(exc2)[:200]})
            else:
                lab["crash_(C19)"] = 1
            return res
        outs[tag] = (code, v, open(fn).read(), code2)
    a, b = outs["orig"], outs["emitted"]
    if a[1] != b[1] or a[0] != b[0]:
        x = [t for t in (a[1] or []) if t not in (b[1] or [])][:2]
        y = [t for t in (b[1] or []) if t not in (a[1] or [])][:2]
        fail("report_differs_under_emitted_configuration", {"only_original": x, "only_emitted": y, "exit": (a[0], b[0])}, ((x or y or [("?",)])[0][0]))
    elif a[2] != b[2]:
        al, bl = a[2].split("\n"), b[2].split("\n")
        i = next((i for i, (p, q) in enumerate(zip(al, bl)) if p != q), min(len(al), len(bl)))
        fail("fix_differs_under_emitted_configuration", {"line": i + 1, "original": al[i : i + 1], "emitted": bl[i : i + 1]})
    lab["behaviour_checks"] = 1
    # ---- -rc round trip for sampled rules
    rids = sorted(j1.get("rule", {}))
    touched = sorted(set(k for c in stack for k in c.get("rule", {}) if k not in ("global", "group")))
    for rid in (touched[:2] + rnd.sample(rids, k=2)):
        code, out, err, exc = _run(sargs + ["-rc", rid])
        if exc is not None or code != 0:
            continue
        try:
            frag = json.loads(out)
        except Exception:
            fail("rc_output_not_json", {"rule": rid, "out": out[:200]}, rid)
            continue
        if frag.get("rule", {}).get(rid, {}).get("severity") not in ("Error", "Warning"):
            continue  # a per-rule fragment cannot carry the definition of a user-defined severity
        fr_ = os.path.join(d, "frag.json")
        with open(fr_, "w") as fh:
            json.dump(frag, fh)
        # feed the fragment back on top of the same style: the rule's configuration must be reproduced
        code, out2, err, exc = _run((["--style", style] if style else []) + ["-c", fr_, "-rc", rid])
        if exc is not None:
            fail("rc_fragment_crashes_vsg", {"rule": rid, "exc": type(exc).__name__}, rid)
            continue
        try:
            frag2 = json.loads(out2)
        except Exception:
            fail("rc_fragment_rejected", {"rule": rid, "out": (out2 + err)[:200]}, rid)
            continue
        if frag2 != frag:
            fail("rc_round_trip_differs", {"rule": rid, "first": frag["rule"][rid], "second": frag2.get("rule", {}).get(rid)}, rid)
        lab["rc_round_trips"] = lab.get("rc_round_trips", 0) + 1
    lab["style_%s" % style] = 1
    lab["stack_files_%d" % len(stack)] = 1
    if stack or style:
        res["nontrivial"].append(common.h(style, stack, text))
        if not res["failures"]:
            res["sample"] = {"style": style, "stack": stack, "file": case.get("file"), "violations": len(a[1] or [])}
    return res
