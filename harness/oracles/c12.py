"""C12 - configuration is obeyed with the documented precedence."""
import copy
import itertools
import json
import os
import random

from hypothesis import strategies as st

from harness import vsgapi
from harness.gen import corpus
from harness.models import precedence
from harness.oracles import common

LEVEL = "exploration"
RULE = (
    "(A, exhaustive table) for attribute a in {disable, fixable, indent_size, severity} and each of the 15 non-empty subsets of the levels {global, group, "
    "rule, per-file}, with pairwise different values per level, the real configuration path (config.New on generated files + apply_rules.configure_rules) is "
    "run once and EVERY non-deprecated rule's effective attribute is compared with the reference precedence model; (B, generated) Hypothesis draws "
    "stacks of 1-3 JSON/YAML files x style x levels x an attribute or a rule option with documented values x (matching / non-matching file name): "
    "effective values of all rules vs model, `-rc` output vs model for sampled rules, and behaviour on an input: violations and fixed text under the stack "
    "== under the flat per-rule configuration the model predicts; fixable:false / warning severity => same fixed text as disabling the rule and the "
    "rule still reports; disabled => silent; (C) every deprecated rule id and unknown rule ids at rule / per-file level => configuration error message "
    "and exit status 1. non-trivial = at least two levels disagree about the attribute; distinct by hash(stack)"
)
ASSUMPTIONS = [
    "the 5 'proposed' placeholder rules (not implemented, no configurable attributes) are outside the table",
    "each level entry of a generated file sets one attribute, so 'replace' and 'merge' readings of multi-file merging coincide",
    "overlapping groups (case, case::keyword) get equal values or only one of them is configured (the docs give no order between groups)",
]
EXHAUSTIVE = {"quick": False, "thorough": False}
VALUES = {
    "disable": [True, False, True, False],
    "fixable": [False, True, False, True],
    "indent_size": [3, 4, 5, 6],
    "severity": ["Warning", "Todo", "Note", "Error"],
}
SEVDEF = {"Todo": {"type": "error"}, "Note": {"type": "warning"}}
LEVELS = ["global", "group", "rule", "file"]
_BASE = {}


def _base_rules():
    if "r" not in _BASE:
        f, c, cla = vsgapi.parse([""])
        rl = vsgapi.rule_list.rule_list(f, c.severity_list)
        _BASE["r"] = [r for r in rl.rules if not r.deprecated and not r.proposed]
        _BASE["dep"] = sorted(r.unique_id for r in rl.rules if r.deprecated)
        _BASE["groups"] = sorted(set(g for r in _BASE["r"] for g in r.groups))
    return _BASE["r"]


def fixed_cases(tier):
    out = []
    for attr in VALUES:
        for mask in range(1, 16):
            out.append({"k": "table", "attr": attr, "mask": mask})
    # overlapping groups configured with different attributes: both must take effect on the rules in both groups
    for g1, g2 in (("case", "case::keyword"), ("case", "case::name"), ("case", "case::label"), ("structure", "structure::optional")):
        for a1, a2 in itertools.permutations(sorted(VALUES), 2):
            out.append({"k": "overlap", "g1": g1, "g2": g2, "a1": a1, "a2": a2})
    _base_rules()
    dep = _BASE["dep"]
    for i in range(0, len(dep), 8):
        out.append({"k": "bad_ids", "ids": dep[i : i + 8], "level": ["rule", "file_rules"][(i // 8) % 2]})
    out.append({"k": "bad_ids", "ids": ["bogus_001", "architecture_999", "global_001"], "level": "rule"})
    out.append({"k": "bad_ids", "ids": ["bogus_001", "entity_998"], "level": "file_rules"})
    out.append({"k": "bad_ids", "ids": ["bogus_001", "port_999"] + dep[:3], "level": "file_rules+top"})
    out.append({"k": "bad_ids", "ids": ["bogus_001", "port_999"] + dep[3:6], "level": "file_list+top"})
    return out


def n_generated(tier):
    return 700 if tier == "quick" else 10000


def strategy(tier):
    return st.fixed_dictionaries({"k": st.just("stack"), "seed": st.integers(0, 2**31 - 1), "file": st.sampled_from(corpus.small_files(80))})


def _configure(style, files, fname, as_yaml=()):
    """the real path: write files, config.New, rule_list, apply_rules.configure_rules"""
    import contextlib
    import io

    names = vsgapi.write_conf_files(files, as_yaml=as_yaml)
    cla = vsgapi.CLA(style=style, configuration=names)
    with contextlib.redirect_stdout(io.StringIO()):
        c = vsgapi.config.New(cla)
    f = vsgapi.VF.vhdlFile([""], cla, fname, None, c)
    rl = vsgapi.rule_list.rule_list(f, c.severity_list)
    vsgapi.vsg_apply.configure_rules(c, rl, c.dConfig, 0, fname)
    return rl, c, cla


def _attr_value(r, attr):
    if attr == "severity":
        return r.severity.name
    return getattr(r, attr)


def run_case(case, tier):
    res = {"labels": {}, "nontrivial": [], "failures": []}
    if case["k"] == "table":
        return _table(case, res)
    if case["k"] == "bad_ids":
        return _bad_ids(case, res)
    if case["k"] == "overlap":
        return _overlap(case, res)
    return _stack(case, res, tier)


def _table(case, res):
    attr, mask = case["attr"], case["mask"]
    rules = _base_rules()
    vals = VALUES[attr]
    # the per-file level is keyed by the file name exactly as it is spelled on the command line: four spellings of one path
    fname = ["dir/some_file.vhd", "./dir/some_file.vhd", "dir/../dir/some_file.vhd", "dir//some_file.vhd"][(mask + len(attr)) % 4]
    conf = {"rule": {}, "severity": SEVDEF}
    per_file = None
    lv = [l for i, l in enumerate(LEVELS) if mask & (1 << i)]
    if "global" in lv:
        conf["rule"]["global"] = {attr: vals[0]}
    if "group" in lv:
        conf["rule"]["group"] = {g: {attr: vals[1]} for g in _BASE["groups"]}
    if "rule" in lv:
        for r in rules:
            conf["rule"][r.unique_id] = {attr: vals[2]}
    if "file" in lv:
        per_file = {r.unique_id: {attr: vals[3]} for r in rules}
        conf["file_rules"] = [{fname: {"rule": per_file}}]
    try:
        rl, c, cla = _configure(None, [conf], fname)
    except Exception as e:
        fr = vsgapi.innermost_vsg_frame(e)
        res["failures"].append({"sig": {"kind": "configure_crashes", "attr": attr, "levels": "+".join(lv), "exc": type(e).__name__}, "detail": {"where": "%s:%s" % (fr[0], fr[1]), "msg": str(e)[:200]}, "case": case})
        res["evals"] = 1
        return res
    defaults = {r.unique_id: _attr_value(r, attr) for r in rules}
    n = 0
    bad = []
    for r in rl.rules:
        if r.deprecated or r.proposed:
            continue
        exp = precedence.effective(r.unique_id, attr, r.groups, r.configuration, defaults[r.unique_id], [conf], per_file)
        got = _attr_value(r, attr)
        n += 1
        if got != exp:
            bad.append((r.unique_id, got, exp))
    if bad:
        res["failures"].append({"sig": {"kind": "effective_value_differs_from_model", "attr": attr, "levels": "+".join(lv)}, "detail": {"n_rules": len(bad), "examples": bad[:4]}, "case": case})
    res["evals"] = n
    res["labels"]["table_rule_checks"] = n
    if len(lv) >= 2:
        res["nontrivial"] = ["t%s%d_%d" % (attr, mask, i) for i in range(n)]
    if not bad:
        res["sample"] = {"kind": "table", "attr": attr, "levels": lv, "values_by_level": dict(zip(LEVELS, vals)), "rules_checked": n}
    return res


def _overlap(case, res):
    rules = _base_rules()
    g1, g2, a1, a2 = case["g1"], case["g2"], case["a1"], case["a2"]
    v1, v2 = VALUES[a1][0], VALUES[a2][1]
    n = 0
    for order in (0, 1):
        grp = {g1: {a1: v1}, g2: {a2: v2}} if order == 0 else {g2: {a2: v2}, g1: {a1: v1}}
        conf = {"rule": {"group": grp}, "severity": SEVDEF}
        try:
            rl, c, cla = _configure(None, [conf], "x.vhd")
        except Exception as e:
            fr = vsgapi.innermost_vsg_frame(e)
            res["failures"].append({"sig": {"kind": "configure_crashes", "attr": a1 + "+" + a2, "levels": "group+group", "exc": type(e).__name__}, "detail": {"where": "%s:%s" % (fr[0], fr[1])}, "case": case})
            continue
        defaults = {r.unique_id: r for r in rules}
        bad = []
        for r in rl.rules:
            if r.deprecated or r.proposed:
                continue
            d = defaults[r.unique_id]
            e1 = v1 if g1 in r.groups else _attr_value(d, a1)
            e2 = v2 if g2 in r.groups else _attr_value(d, a2)
            n += 1
            if _attr_value(r, a1) != e1 or _attr_value(r, a2) != e2:
                bad.append((r.unique_id, (_attr_value(r, a1), e1), (_attr_value(r, a2), e2)))
        if bad:
            res["failures"].append({"sig": {"kind": "overlapping_groups_not_both_applied", "attr": a1 + "+" + a2}, "detail": {"groups": [g1, g2], "order": order, "n_rules": len(bad), "examples": bad[:3]}, "case": case})
    res["evals"] = n
    res["labels"]["overlap_rule_checks"] = n
    res["nontrivial"] = ["o%s%s%s%s_%d" % (g1, g2, a1, a2, i) for i in range(n)]
    if not res["failures"]:
        res["sample"] = {"kind": "overlap", "groups": [g1, g2], "attrs": [a1, a2], "rules_checked": n}
    return res


def _bad_ids(case, res):
    d = vsgapi.scratch_dir()
    fn = os.path.join(d, "c12_%d.vhd" % os.getpid())
    with open(fn, "w") as fh:
        fh.write("\nentity e is\nend entity e;\n")
    n = 0
    for rid in case["ids"]:
        if case["level"] == "rule":
            conf = {"rule": {rid: {"disable": True}}}
        elif case["level"] == "file_rules":
            conf = {"file_rules": [{fn: {"rule": {rid: {"disable": True}}}}]}
        elif case["level"] == "file_rules+top":
            conf = {"rule": {"entity_004": {"disable": False}, "global": {"indent_size": 2}}, "file_rules": [{fn: {"rule": {rid: {"disable": True}}}}]}
        else:
            conf = {"rule": {"entity_004": {"disable": False}}, "file_list": [{fn: {"rule": {rid: {"disable": True}}}}]}
        code, out, err, exc = vsgapi.run_cli(["-p", "1", "-f", fn, "-c"] + vsgapi.write_conf_files([conf]))
        n += 1
        msg = (out + err)
        if exc is not None:
            res["failures"].append({"sig": {"kind": "bad_rule_id_crashes", "level": case["level"]}, "detail": {"id": rid, "exc": repr(exc)[:200]}, "case": {"k": "bad_ids", "ids": [rid], "level": case["level"]}})
        elif code != 1 or ("ERROR" not in msg and "Error" not in msg) or rid not in msg:
            res["failures"].append({"sig": {"kind": "bad_rule_id_not_reported", "level": case["level"], "deprecated": rid in _BASE.get("dep", [])}, "detail": {"id": rid, "exit": code, "output": msg[:300]}, "case": {"k": "bad_ids", "ids": [rid], "level": case["level"]}})
    res["evals"] = n
    if not res["failures"]:
        res["sample"] = {"kind": "bad_ids", "level": case["level"], "ids": case["ids"][:4], "outcome": "configuration error reported, exit status 1"}
    res["labels"]["bad_id_runs_" + case["level"]] = n
    res["nontrivial"] = [common.h("bad", rid, case["level"]) for rid in case["ids"]]
    return res


_STYLE = {}


def _style_conf(style):
    """the predefined style as a configuration dictionary (the 'style default' level)"""
    if style not in _STYLE:
        if style is None:
            _STYLE[style] = {}
        else:
            import yaml

            _STYLE[style] = yaml.safe_load(open(os.path.join(vsgapi.REPO, "vsg", "styles", style + ".yaml"))) or {}
    return _STYLE[style]


def _option_values():
    """documented option domains (tables/option_domains.json), keyed by option then rule"""
    from harness.gen import configs

    return configs.domains()


def _stack(case, res, tier):
    rnd = random.Random(case["seed"])
    rules = _base_rules()
    lab = res["labels"]
    style = rnd.choice([None, None, "jcl", "indent_only"])
    fname_dir = vsgapi.scratch_dir()
    fname = os.path.join(fname_dir, "c12s_%d.vhd" % os.getpid())
    if case["seed"] % 3 == 1:
        # same file, non-canonical spelling (per-file configuration is keyed by the spelling used on the command line)
        fname = fname_dir + ("/./" if case["seed"] % 2 else "//") + os.path.basename(fname)
        lab["non_canonical_file_spelling"] = 1
    text = corpus.text(case["file"])
    with open(fname, "w") as fh:
        fh.write(text + "\n")
    # choose the attribute: a base attribute or a documented option of some rule
    dom = _option_values()
    if "stack" in case:
        st_ = case["stack"]
        attr, files, target_rules, match_file = st_["attr"], st_["files"], st_["targets"], st_["match"]
        as_yaml = tuple(st_.get("yaml", ()))
        # per-file keys were written for the file name of the process that generated the case: re-key them for this process
        old_name = st_.get("fname")
        if old_name and old_name != fname:
            files = copy.deepcopy(files)
            for conf in files:
                for ent in conf.get("file_rules", []):
                    for k in list(ent):
                        if k == old_name or k == old_name + ".other":
                            ent[fname + k[len(old_name):]] = ent.pop(k)
    else:
        if dom and rnd.random() < 0.5:
            attr = rnd.choice(sorted(dom))
            ent = rnd.choice(dom[attr])
            pool = ent["values"]
            target_rules = [r for r in ent["rules"]]
        else:
            attr = rnd.choice(sorted(VALUES))
            pool = VALUES[attr]
            target_rules = [r.unique_id for r in rnd.sample(rules, k=6)]
        have_attr = [r for r in rules if attr in r.configuration]
        target_rules = [t for t in target_rules if any(r.unique_id == t for r in have_attr)][:6]
        if not target_rules or len(pool) < 1:
            lab["skipped_no_targets"] = 1
            return res
        # entries the style itself defines are not redefined by the generated files ('replace' and 'merge' readings would differ)
        srule = _style_conf(style).get("rule", {})
        target_rules = [t for t in target_rules if t not in srule]
        if not target_rules:
            lab["skipped_no_targets"] = 1
            return res
        tgroups = sorted(set(g for r in rules if r.unique_id in target_rules for g in r.groups))
        if "group" in srule:
            tgroups = []
        skip_global = "global" in srule
        # never give overlapping groups different values: pick one group only
        nfiles = rnd.randint(1, 3)
        files = []
        match_file = rnd.random() < 0.6
        for i in range(nfiles):
            conf = {"rule": {}}
            if attr == "severity":
                conf["severity"] = SEVDEF
            for lvl in LEVELS:
                if rnd.random() < 0.45:
                    v = rnd.choice(pool)
                    if lvl == "global":
                        if not skip_global:
                            conf["rule"]["global"] = {attr: v}
                    elif lvl == "group" and tgroups:
                        conf["rule"]["group"] = {rnd.choice(tgroups): {attr: v}}
                    elif lvl == "rule":
                        for t in rnd.sample(target_rules, k=rnd.randint(1, len(target_rules))):
                            conf["rule"][t] = {attr: v}
                    elif lvl == "file" and i == nfiles - 1:
                        key = fname if match_file else fname + ".other"
                        conf["file_rules"] = [{key: {"rule": {t: {attr: rnd.choice(pool)} for t in rnd.sample(target_rules, k=rnd.randint(1, len(target_rules)))}}}]
            if not conf["rule"]:
                del conf["rule"]
            files.append(conf)
        as_yaml = tuple(i for i in range(nfiles) if rnd.random() < 0.4)
    concrete = {"k": "stack", "seed": case["seed"], "file": case["file"], "stack": {"attr": attr, "files": files, "targets": target_rules, "match": match_file, "yaml": list(as_yaml), "fname": fname}, "style": style}

    def fail(kind, detail, rule=None):
        sig = {"kind": kind, "attr": attr}
        if rule:
            sig["rule"] = rule
        res["failures"].append({"sig": sig, "detail": detail, "case": concrete})

    try:
        rl, c, cla = _configure(style, copy.deepcopy(files), fname, as_yaml)
        rl0, c0, cla0 = _configure(style, [], fname)
        rl00, _, _ = _configure(None, [], fname)
    except SystemExit:
        lab["config_rejected_by_vsg"] = 1
        return res
    except common.exceptions.ConfigurationError:
        lab["config_rejected_by_vsg"] = 1
        return res
    except Exception as e:
        fr = vsgapi.innermost_vsg_frame(e)
        fail("configure_crashes", {"where": "%s:%s" % (fr[0], fr[1]), "exc": type(e).__name__, "msg": str(e)[:200]})
        return res
    defaults = {r.unique_id: _attr_value(r, attr) for r in rl00.rules if not r.deprecated and hasattr(r, attr) or attr == "severity"}
    style_vals = {r.unique_id: _attr_value(r, attr) for r in rl0.rules if not r.deprecated and hasattr(r, attr) or attr == "severity"}
    model_files = ([_style_conf(style)] if style else []) + files
    per_file = None
    for conf in files:
        for ent in conf.get("file_rules", []):
            for k, v in ent.items():
                if k == fname:
                    per_file = v.get("rule", {})
    levels_set = set()
    flat = {}
    mism = []
    for r in rl.rules:
        if r.deprecated or r.proposed or r.unique_id not in defaults:
            continue
        if attr != "severity" and not hasattr(r, attr):
            continue
        exp = precedence.effective(r.unique_id, attr, r.groups, r.configuration, defaults[r.unique_id], model_files, per_file)
        got = _attr_value(r, attr)
        if got != exp:
            mism.append((r.unique_id, got, exp))
        if exp != style_vals[r.unique_id]:
            flat[r.unique_id] = dict(_style_conf(style).get("rule", {}).get(r.unique_id, {}))
            flat[r.unique_id][attr] = exp
    if mism:
        fail("effective_value_differs_from_model", {"n_rules": len(mism), "examples": mism[:4]})
    vals_seen = set()
    for conf in files:
        for k, v in conf.get("rule", {}).items():
            if k == "group":
                for g, d in v.items():
                    vals_seen.add(json.dumps(d.get(attr)))
            else:
                vals_seen.add(json.dumps(v.get(attr)))
    lab["attr_" + ("base" if attr in VALUES else "option")] = 1
    lab["files_%d" % len(files)] = 1
    if as_yaml:
        lab["with_yaml"] = 1
    # ---- behaviour: stack == flat per-rule configuration predicted by the model
    if not mism:
        try:
            flat_conf = {"rule": flat}
            if attr == "severity":
                flat_conf["severity"] = SEVDEF
            v1, t1 = _behave(text, style, files, fname, as_yaml)
            v2, t2 = _behave(text, style, [flat_conf] if flat else [], fname, ())
            if v1 != v2:
                a = [x for x in v1 if x not in v2][:2]
                b = [x for x in v2 if x not in v1][:2]
                fail("violations_under_stack_differ_from_flat_equivalent", {"only_stack": a, "only_flat": b}, (a or b)[0][0])
            elif t1 != t2:
                i = next((i for i, (x, y) in enumerate(zip(t1, t2)) if x != y), min(len(t1), len(t2)))
                fail("fixed_text_under_stack_differs_from_flat_equivalent", {"line": i + 1, "stack": t1[i : i + 1], "flat": t2[i : i + 1]})
            lab["behaviour_checks"] = 1
        except common.exceptions.ClassifyError:
            lab["rejected_by_vsg"] = 1
        except common.exceptions.ConfigurationError:
            lab["config_rejected_by_vsg"] = 1
        except Exception:
            lab["crash_(C19)"] = 1
    # -rc for one target rule
    if target_rules and not as_yaml and not mism and case["seed"] % 3 == 0:
        t = target_rules[0]
        names = vsgapi.write_conf_files(copy.deepcopy(files))
        code, out, err, exc = vsgapi.run_cli((["--style", style] if style else []) + ["-c"] + names + ["-rc", t, "-f", fname])
        if exc is None and code == 0:
            try:
                j = json.loads(out)["rule"][t]
                r = [x for x in rl.rules if x.unique_id == t][0]
                # -rc has no file context: compare with the model without the per-file level
                exp = precedence.effective(t, attr, r.groups, r.configuration, defaults[t], model_files, None)
                if attr in j and j[attr] != exp:
                    fail("rc_output_differs_from_model", {"rule": t, "printed": j[attr], "model": exp}, t)
                lab["rc_checks"] = 1
            except Exception:
                lab["rc_unparsable"] = 1
    if len(vals_seen) >= 2:
        res["nontrivial"].append(common.h(files, style, attr))
        if not res["failures"]:
            res["sample"] = {"kind": "stack", "attr": attr, "style": style, "files": files, "yaml_files": list(as_yaml), "file_matches_per_file_level": match_file}
    return res


def _behave(text, style, files, fname, as_yaml):
    import contextlib
    import io

    names = vsgapi.write_conf_files(copy.deepcopy(files), as_yaml=as_yaml)
    cla = vsgapi.CLA(style=style, configuration=names)
    with contextlib.redirect_stdout(io.StringIO()):
        c = vsgapi.config.New(cla)
    lines = text.split("\n")
    f = vsgapi.VF.vhdlFile(list(lines), cla, fname, None, c)
    f.set_indent_map(c.dIndent)
    rl = vsgapi.rule_list.rule_list(f, c.severity_list)
    vsgapi.vsg_apply.configure_rules(c, rl, c.dConfig, 0, fname)
    rl.check_rules(bAllPhases=True)
    v = [(a, b, str(s), [r for r in rl.rules if r.unique_id == a][0].severity.name) for a, b, s in vsgapi.violations_of(rl)]
    rl.clear_violations()
    f2 = vsgapi.VF.vhdlFile(list(lines), cla, fname, None, c)
    f2.set_indent_map(c.dIndent)
    rl2 = vsgapi.rule_list.rule_list(f2, c.severity_list)
    vsgapi.vsg_apply.configure_rules(c, rl2, c.dConfig, 0, fname)
    rl2.fix()
    return v, f2.get_lines()[1:]
