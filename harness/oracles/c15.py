"""C15 - a file's result does not depend on jobs, order, neighbours or input channel.

(a) histories inside one long-lived process (Hypothesis RuleBasedStateMachine): every step processes one (file, configuration, fix?) through the real
    apply_rules.apply_rules and must equal the result of the same call in a fresh fork of a pristine process.
(b) the real CLI in subprocesses: file lists x permutations x -p x --fix, and --stdin vs by name.
"""
import collections
import contextlib
import io
import json
import os
import pickle
import random
import re
import shutil
import subprocess
import sys

import hypothesis
from hypothesis import HealthCheck, Phase, settings, strategies as st
from hypothesis.stateful import RuleBasedStateMachine, rule, run_state_machine_as_test

from harness import vsgapi
from harness.gen import configs, corpus
from harness.oracles import common

LEVEL = "exploration"
RULE = (
    "(a) histories: Hypothesis rule-based state machine; each step draws (file from the fixtures incl. rejected ones and pragma/code-tag files, one of "
    "8 configurations incl. custom pragma patterns, indent maps, user severities and option values, fix or check) and runs the real "
    "apply_rules.apply_rules in the long-lived worker; invariant after every step: (status, stdout, stderr, JSON entry, JUnit text, file bytes) == the "
    "same call in a fresh fork of a pristine process; (b) real CLI subprocesses: lists of 2-5 files (accepted, rejected, fixable) x permutations x "
    "-p in {1,2,3,len+1} x {--fix, check}: per-file stdout block, JSON entry, JUnit testcase, fixed bytes and exit contribution == solo '-p 1' run, "
    "blocks and JSON entries in command-line order; --stdin == by name modulo the file name. non-trivial = history of >= 3 steps with >= 2 distinct "
    "configurations, or a list with >= 2 files with different reports and p >= 2; distinct by hash(history | list, order, p)"
)
ASSUMPTIONS = [
    "which worker of multiprocessing.Pool gets which file is decided by the OS; (b) samples schedules, (a) owns the 'files seen before' dimension",
]
CASE_TIME_LIMIT = 1200


def _files():
    fs = corpus.small_files(70)
    # files that carry parser state to their end (unclosed comp_off / translate_off / vsg_off regions, control characters)
    extra = [f for f in corpus.files() if "corpus_extra" in f]
    return extra * 6 + fs


CONFS = None


def _confs():
    global CONFS
    if CONFS is None:
        rnd = random.Random(7)
        CONFS = [
            (None, None),
            ("jcl", None),
            ("indent_only", None),
            (None, {"pragma": {"patterns": {"single": ["^\\s*--\\s+mytool\\s+\\w+\\s*$"], "open": ["^\\s*--\\s+mytool\\s+off\\s*$"], "close": ["^\\s*--\\s+mytool\\s+on\\s*$"]}}}),
            (None, {"indent": {"tokens": {"architecture_body": {"begin_keyword": {"token": 1, "after": 2}}}}, "rule": {"global": {"indent_size": 3}}}),
            (None, {"severity": {"Todo": {"type": "error"}, "Note": {"type": "warning"}}, "rule": {"group": {"case": {"severity": "Note"}}, "global": {"severity": "Todo"}}}),
            (None, configs.random_conf(rnd, size=12)),
            ("jcl", configs.random_conf(rnd, "jcl", size=8)),
            (None, {"rule": {"group": {"case": {"case": "upper"}}}}),
            (None, {"rule": {"group": {"case::keyword": {"case": "upper"}, "structure": {"fixable": False}}}}),
        ]
    return CONFS


class _Args(vsgapi.CLA):
    pass


def _process(path, style, conf, fix, fp=7):
    """one call of the real per-file entry point; returns a comparable tuple"""
    names = vsgapi.write_conf_files([conf]) if conf else []
    args = _Args(style=style, configuration=names, fix=fix, json="x", junit="y", fix_phase=fp)
    args.filename = [path]
    out = io.StringIO()
    with contextlib.redirect_stdout(out), contextlib.redirect_stderr(out):
        try:
            oConfig = vsgapi.config.New(args)
            r = vsgapi.vsg_apply.apply_rules(args, oConfig, (0, path))
        except SystemExit as e:
            return ("SystemExit", str(e.code), out.getvalue())
        except Exception as e:
            fr = vsgapi.innermost_vsg_frame(e)
            return ("EXC", type(e).__name__, "%s:%s" % (fr[0], fr[1]))
    st_, tc, js, so, se, keep = r
    junit = "\n".join(tc.build_junit()) if tc is not None else None
    return (bool(st_), junit, json.dumps(js, sort_keys=True), so, se, open(path, "rb").read().decode("latin-1"), out.getvalue(), bool(keep))


def _fork(fn):
    r, w = os.pipe()
    pid = os.fork()
    if pid == 0:
        os.close(r)
        try:
            data = pickle.dumps(fn())
        except BaseException as e:  # noqa: B902
            data = pickle.dumps(("FORK_EXC", repr(e)))
        with os.fdopen(w, "wb") as f:
            f.write(data)
        os._exit(0)
    os.close(w)
    with os.fdopen(r, "rb") as f:
        data = f.read()
    os.waitpid(pid, 0)
    return pickle.loads(data)


PAIR_FILES = ["tests/architecture/rule_010_test_input.vhd", "tests/package_body/rule_002_test_input.vhd", "tests/entity/rule_015_test_input.vhd", "tests/process/rule_012_test_input.vhd", "tests/generate/rule_011_test_input.vhd", "tests/component/rule_021_test_input.vhd", "tests/function/rule_018_test_input.vhd", "tests/case/rule_019_test_input.vhd"]


def _pair_histories(tier):
    """seed-independent two-step histories: every (file, configuration, fix, fix_phase) variant as first step, followed by
    a rotating selection of second steps (the second step's result must not depend on the first)"""
    files = [f for f in PAIR_FILES if f in corpus.files()] + [f for f in corpus.files() if "corpus_extra" in f]
    variants = []
    for f in files:
        for ci in range(len(_confs())):
            for fix, fp in ((True, 7), (True, 1), (False, 7)):
                variants.append([f, ci, fix, fp])
    out = []
    k = 3 if tier == "quick" else 12
    for i, v in enumerate(variants):
        f = v[0]
        f2 = files[(files.index(f) + 1) % len(files)]
        # canonical probes after every first step: the same file (same constructs, same rules) and a neighbour, early fix phase and check
        probes = [[f, 0, True, 1], [f, 0, False, 7], [f2, 0, True, 1]]
        for j in range(k - 3):
            probes.append(variants[(i * 31 + j * 97 + 13) % len(variants)])
        for w in probes:
            out.append({"k": "hist_replay", "history": [v, w], "pair": True})
    return out


def _extra_cli_cases():
    """seed-independent batches around the state-carrying / control-character files, each also fed through --stdin"""
    extra = [f for f in corpus.files() if "corpus_extra" in f]
    fixt = [f for f in PAIR_FILES if f in corpus.files()]
    out = []
    for i, e in enumerate(extra):
        for p in (1, 2):
            out.append({"k": "cli", "files": [e, fixt[i % len(fixt)], fixt[(i + 3) % len(fixt)]], "bad": None, "p": p, "fix": False, "perm": 0, "style": None, "stdin": True, "keep_order": True})
        out.append({"k": "cli", "files": [fixt[(i + 1) % len(fixt)], e], "bad": None, "p": 2, "fix": True, "perm": 0, "style": None, "stdin": False, "keep_order": True})
    return out


def fixed_cases(tier):
    out = _pair_histories(tier) + _extra_cli_cases()
    n_hist = 16 if tier == "quick" else 64
    for i in range(n_hist):
        out.append({"k": "hist", "hseed": i, "examples": 6 if tier == "quick" else 25, "steps": 8 if tier == "quick" else 14})
    return out


def n_generated(tier):
    return 64 if tier == "quick" else 600


def strategy(tier):
    files = _files()
    return st.fixed_dictionaries(
        {
            "k": st.just("cli"),
            "files": st.lists(st.sampled_from(files), min_size=2, max_size=5, unique=True).map(lambda l: l if len(set(l)) > 1 else l),
            "bad": st.sampled_from([None, None, "unparsable"]),
            "p": st.sampled_from([1, 2, 3, 99]),
            "fix": st.booleans(),
            "perm": st.integers(0, 10**6),
            "style": st.sampled_from([None, None, "jcl"]),
            "stdin": st.booleans(),
        }
    )


def run_case(case, tier):
    # every history runs in a fresh fork of this worker as it was before it processed anything, so that the recorded history
    # is the complete history of the process that produced the result
    if case["k"] == "hist":
        r = _fork(lambda: _hist(case, tier))
    elif case["k"] == "hist_replay":
        r = _fork(lambda: _hist_replay(case))
    else:
        return _cli(case, tier)
    if not isinstance(r, dict):
        raise RuntimeError("history child failed: %r" % (r,))
    return r


# ----------------------------------------------------------------------------------------------------
def _workdir():
    d = os.path.join(vsgapi.scratch_dir(), "c15_%d" % os.getpid())
    os.makedirs(d, exist_ok=True)
    return d


_FRESH = {}


def _fresh_result(f, ci, fix, fp=7):
    """result of the call in a fresh fork of the pristine parent of this worker... the worker itself is not pristine, so the reference is
    produced by a child of a *dedicated pristine helper* started before the worker ran anything (see worker_init)"""
    key = (f, ci, fix, fp)
    if key not in _FRESH:
        _FRESH[key] = _HELPER.ask(key)
    return _FRESH[key]


class _Helper:
    """a pristine process (forked at worker start, before any vsg work) that forks a fresh child per request"""

    def __init__(self):
        self.p2c = os.pipe()
        self.c2p = os.pipe()
        pid = os.fork()
        if pid == 0:
            os.close(self.p2c[1])
            os.close(self.c2p[0])
            rf = os.fdopen(self.p2c[0], "rb")
            wf = os.fdopen(self.c2p[1], "wb")
            try:
                while True:
                    try:
                        key = pickle.load(rf)
                    except EOFError:
                        break
                    res = _fork(lambda: _one_fresh(key))
                    pickle.dump(res, wf)
                    wf.flush()
            finally:
                os._exit(0)
        self.pid = pid
        os.close(self.p2c[0])
        os.close(self.c2p[1])
        self.w = os.fdopen(self.p2c[1], "wb")
        self.r = os.fdopen(self.c2p[0], "rb")

    def ask(self, key):
        pickle.dump(key, self.w)
        self.w.flush()
        return pickle.load(self.r)


_HELPER = None


def worker_init(tier):
    global _HELPER
    _confs()
    _files()
    if _HELPER is None:
        _HELPER = _Helper()


def _one_fresh(key):
    f, ci, fix, fp = key
    d = os.path.join(vsgapi.scratch_dir(), "c15f_%d" % os.getpid())
    os.makedirs(d, exist_ok=True)
    p = os.path.join(d, "f.vhd")
    shutil.copy(corpus.path(f), p)
    style, conf = _confs()[ci]
    r = _process(p, style, conf, fix, fp)
    shutil.rmtree(d, ignore_errors=True)
    return _norm(r, p)


def _norm(r, path):
    return tuple(x.replace(path, "<FILE>") if isinstance(x, str) else x for x in r)


_WORKER_HIST = []


def _step(f, ci, fix, fp=7):
    _WORKER_HIST.append([f, ci, fix, fp])
    d = _workdir()
    p = os.path.join(d, "h.vhd")
    shutil.copy(corpus.path(f), p)
    style, conf = _confs()[ci]
    return _norm(_process(p, style, conf, fix, fp), p)


FIELDS = ("status", "junit", "json", "stdout", "stderr", "file_bytes", "printed", "stop_flag")


def _compare(got, ref):
    if got == ref:
        return None
    if len(got) != len(ref) or len(got) != len(FIELDS):
        return ["outcome_kind(%s vs %s)" % (got[:2], ref[:2])]
    return [FIELDS[i] for i in range(len(got)) if got[i] != ref[i]]


def _hist(case, tier):
    res = {"labels": {}, "nontrivial": [], "failures": [], "evals": 0}
    files = _files()
    nconf = len(_confs())
    found = []
    stats = collections.Counter()

    class Machine(RuleBasedStateMachine):
        def __init__(self):
            super().__init__()
            self.hist = []

        @rule(fi=st.integers(0, len(files) - 1), ci=st.integers(0, nconf - 1), fix=st.booleans(), fp=st.sampled_from([7, 7, 7, 1, 2, 5]))
        def process(self, fi, ci, fix, fp):
            if found:
                return
            f = files[fi]
            if not fix:
                fp = 7
            self.hist.append((f, ci, fix, fp))
            got = _step(f, ci, fix, fp)
            ref = _fresh_result(f, ci, fix, fp)
            stats["steps"] += 1
            diff = _compare(got, ref)
            if diff:
                found.append(([list(x) for x in _WORKER_HIST], diff))

        def teardown(self):
            stats["histories"] += 1
            if len(self.hist) >= 3 and len(set(h[1] for h in self.hist)) >= 2:
                res["nontrivial"].append(common.h(self.hist))

    try:
        run_state_machine_as_test(
            hypothesis.seed(10_000 + case["hseed"])(Machine),
            settings=settings(max_examples=case["examples"], stateful_step_count=case["steps"], deadline=None, database=None, phases=[Phase.generate], suppress_health_check=list(HealthCheck), report_multiple_bugs=False),
        )
    except Exception as e:
        raise RuntimeError("state machine run failed inside the harness: %r" % (e,))
    res["evals"] = stats["steps"]
    res["labels"]["history_steps"] = stats["steps"]
    res["labels"]["histories"] = stats["histories"]
    if found:
        hist, diff = found[0]
        # shrink the history right here (same long-lived process is part of the failure, so replay = the whole history from a fresh process)
        res["failures"].append({"sig": {"kind": "result_depends_on_history", "field": diff[0]}, "detail": {"fields": diff, "last_step": hist[-1], "history_length": len(hist)}, "case": {"k": "hist_replay", "history": hist}})
    elif case["hseed"] == 0:
        res["sample"] = {"kind": "history", "example_steps": "process(file, configuration index, fix) x %d per history" % case["steps"], "histories": stats["histories"], "steps": stats["steps"]}
    return res


def _hist_replay(case):
    res = {"labels": {}, "nontrivial": [], "failures": [], "evals": 0}
    if case.get("pair"):
        res["labels"]["pair_histories"] = 1
        if case["history"][0][1] != case["history"][1][1] or case["history"][0][0] != case["history"][1][0]:
            res["nontrivial"].append(common.h(case["history"]))
    for i, step in enumerate(case["history"]):
        f, ci, fix = step[:3]
        fp = step[3] if len(step) > 3 else 7
        got = _step(f, ci, fix, fp)
        ref = _fresh_result(f, ci, fix, fp)
        res["evals"] += 1
        diff = _compare(got, ref)
        if diff:
            res["failures"].append({"sig": {"kind": "result_depends_on_history", "field": diff[0]}, "detail": {"fields": diff, "step": i, "last_step": [f, ci, fix, fp]}, "case": {"k": "hist_replay", "history": [list(x) for x in case["history"][: i + 1]]}})
            break
    return res


def shrink(case, sig, tier, budget):
    import time

    from harness import shrink as shr
    from harness.run import sig_str

    if case.get("k") != "hist_replay":
        return case
    want = sig_str(sig)
    last = case["history"][-1]

    def still(prefix):
        c = {"k": "hist_replay", "history": list(prefix) + [last]}
        r = _fork(lambda: _hist_replay(c))
        return isinstance(r, dict) and any(sig_str(f["sig"]) == want for f in r.get("failures", []))

    keep = shr.ddmin(case["history"][:-1], still, time.time() + budget)
    return {"k": "hist_replay", "history": list(keep) + [last]}


# ----------------------------------------------------------------------------------------------------
HDR = re.compile(r"^={80}\nFile:  (.*)\n={80}\n", re.M)


def _run_cli_sub(args, cwd, stdin_data=None):
    env = dict(os.environ)
    env["PYTHONPATH"] = vsgapi.REPO
    env.pop("VERIF_REEXEC", None)
    p = subprocess.run([sys.executable, os.path.join(vsgapi.REPO, "bin", "vsg")] + args, cwd=cwd, env=env, capture_output=True, timeout=600, input=stdin_data)
    return p.returncode, p.stdout.decode("utf-8", "replace"), p.stderr.decode("utf-8", "replace")


def _blocks(out):
    """split the standard output into per-file blocks keyed by file name, keeping order"""
    ms = list(HDR.finditer(out))
    res = []
    for i, m in enumerate(ms):
        end = ms[i + 1].start() if i + 1 < len(ms) else len(out)
        res.append((m.group(1), out[m.end() : end].rstrip("\n")))
    return res


def _junit_cases(path):
    import xml.etree.ElementTree as ET

    try:
        root = ET.parse(path).getroot()
    except Exception:
        return None
    out = []
    for tc in root.iter("testcase"):
        out.append((tc.get("name"), "\n".join((f.text or "").strip() for f in tc.iter("failure"))))
    return out


def _cli(case, tier):
    res = {"labels": {}, "nontrivial": [], "failures": [], "evals": 0}
    lab = res["labels"]
    d = os.path.join(_workdir(), "cli")
    shutil.rmtree(d, ignore_errors=True)
    os.makedirs(d)
    texts = case.get("texts")
    if texts is None:
        texts = [open(corpus.path(f), "rb").read() for f in case["files"]]
        if case.get("bad"):
            texts.append(b"\nentity e is\n  port (a : in bit\nend entity e;;\n")
        if not case.get("keep_order"):
            rnd = random.Random(case["perm"])
            rnd.shuffle(texts)
    else:
        texts = [t.encode("latin-1") for t in texts]
    names = ["f%d.vhd" % i for i in range(len(texts))]
    concrete = {"k": "cli", "texts": [t.decode("latin-1") for t in texts], "p": case["p"], "fix": case["fix"], "style": case.get("style"), "stdin": case.get("stdin"), "perm": case.get("perm", 0)}

    def reset():
        for n, t in zip(names, texts):
            with open(os.path.join(d, n), "wb") as fh:
                fh.write(t)

    def fail(kind, detail):
        res["failures"].append({"sig": {"kind": kind, "fix": case["fix"]}, "detail": detail, "case": concrete})

    base = (["--style", case["style"]] if case.get("style") else []) + (["--fix"] if case["fix"] else [])
    # solo references
    solo = {}
    for n in names:
        reset()
        code, out, err = _run_cli_sub(["-p", "1", "-f", n, "-js", "s.json", "-j", "s.xml"] + base, d)
        res["evals"] += 1
        try:
            js = json.load(open(os.path.join(d, "s.json")))["files"]
        except Exception:
            js = None
        solo[n] = {"code": code, "blocks": _blocks(out), "err": err.strip(), "json": js, "junit": _junit_cases(os.path.join(d, "s.xml")), "bytes": open(os.path.join(d, n), "rb").read()}
        if "Traceback" in err:
            lab["solo_traceback_(C19)"] = 1
            return res
    # the batch
    reset()
    p = case["p"] if case["p"] != 99 else len(names) + 1
    code, out, err = _run_cli_sub(["-p", str(p), "-f"] + names + ["-js", "b.json", "-j", "b.xml"] + base, d)
    res["evals"] += 1
    if "Traceback" in err:
        fail("batch_run_traceback", {"stderr": err[-400:]})
        return res
    blocks = _blocks(out)
    try:
        bjs = json.load(open(os.path.join(d, "b.json")))["files"]
    except Exception:
        bjs = None
    bju = _junit_cases(os.path.join(d, "b.xml"))
    exp_blocks = [b for n in names for b in solo[n]["blocks"]]
    if [b[0] for b in blocks] != [b[0] for b in exp_blocks]:
        fail("stdout_blocks_not_in_command_line_order", {"got": [b[0] for b in blocks], "expected": [b[0] for b in exp_blocks]})
    else:
        for (n1, b1), (n2, b2) in zip(blocks, exp_blocks):
            if b1 != b2:
                fail("per_file_report_differs_from_solo_run", {"file": n1, "batch": b1[:300], "solo": b2[:300], "p": p})
                break
    exp_err = "\n".join(solo[n]["err"] for n in names if solo[n]["err"])
    if [l for l in err.split("\n") if l.strip()] != [l for l in exp_err.split("\n") if l.strip()]:
        fail("stderr_differs_from_solo_runs", {"batch": err[:300], "solo": exp_err[:300]})
    exp_js = [e for n in names for e in (solo[n]["json"] or [])]
    if bjs != exp_js:
        fail("json_entries_differ_from_solo_runs", {"batch_files": [e.get("file_path") for e in (bjs or [])], "solo_files": [e.get("file_path") for e in exp_js]})
    exp_ju = [e for n in names for e in (solo[n]["junit"] or [])]
    if bju != exp_ju:
        fail("junit_differs_from_solo_runs", {"batch": [x[0] for x in (bju or [])], "solo": [x[0] for x in exp_ju]})
    exp_code = 1 if any(solo[n]["code"] for n in names) else 0
    if code != exp_code:
        fail("exit_status_is_not_the_or_of_solo_statuses", {"batch": code, "solo": [solo[n]["code"] for n in names]})
    for n in names:
        if open(os.path.join(d, n), "rb").read() != solo[n]["bytes"]:
            fail("fixed_bytes_differ_from_solo_run", {"file": n, "p": p})
            break
    # stdin channel for the first accepted file
    if case.get("stdin") and not case["fix"]:
        k0 = next((i for i, t in enumerate(texts) if any(c in t for c in (b"\x0c", b"\x0b", b"\x1f", b"\x85", b"\r"))), 0)
        n = names[k0]
        reset()
        code_s, out_s, err_s = _run_cli_sub(["--stdin", "-js", "i.json"] + base, d, stdin_data=texts[k0])
        res["evals"] += 1
        a = [(x, y.replace("stdin", "<F>")) for x, y in _blocks(out_s)]
        b = [(x, y.replace(n, "<F>")) for x, y in solo[n]["blocks"]]
        if [y for x, y in a] != [y for x, y in b] or code_s != solo[n]["code"]:
            fail("stdin_result_differs_from_by_name", {"stdin": (code_s, [y[:200] for x, y in a]), "by_name": (solo[n]["code"], [y[:200] for x, y in b]), "stderr": err_s[:200]})
        lab["stdin_checks"] = 1
    lab["batch_p_%d" % min(p, 4)] = 1
    lab["batch_fix" if case["fix"] else "batch_check"] = 1
    distinct_reports = len(set(json.dumps(solo[n]["json"], sort_keys=True) if solo[n]["json"] else solo[n]["err"] for n in names))
    if len(names) >= 2 and distinct_reports >= 2 and p >= 2:
        res["nontrivial"].append(common.h(concrete["texts"], p, case["fix"], case.get("style")))
    if not res["failures"]:
        res["sample"] = {"kind": "cli", "files": case.get("files"), "p": p, "fix": case["fix"], "style": case.get("style"), "exit": code, "blocks": [b[0] for b in blocks]}
    shutil.rmtree(d, ignore_errors=True)
    return res
