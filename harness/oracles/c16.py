"""C16 - write-back is all-or-nothing and keeps the file's mode (fault enumeration)."""
import builtins
import errno
import os
import shutil
import signal
import stat
import subprocess
import sys

from harness import vsgapi
from harness.gen import corpus
from harness.oracles import common

LEVEL = "fault_enumeration"
RULE = (
    "enumerated: crash point (shutil.copy2 of --backup, os.stat, open(tmp), 1st and 2nd write, close, os.chmod, os.replace, os.remove as seen from "
    "vsg.apply_rules, and the k-th rule's fix raising) x fault kind (PermissionError, OSError ENOSPC, OSError EIO, short write then error; and for the "
    "real CLI in a subprocess SIGKILL before / after / in the middle of the call, injected by a sitecustomize on PYTHONPATH) x file mode "
    "(0644, 0600, 0755, 0444, 0664, 0660 under umask 022) x {--backup, not} x inputs (fixtures whose fix changes the file; plus an unparsable and a mis-configured file). "
    "oracle after every run: bytes(file) in {original, result of a fault-free run}, st_mode unchanged, <name>.bak == original whenever it exists and "
    "was requested, <name>.tmp absent unless the process was killed; unparsable / mis-configured files byte-identical. non-trivial = the fault-free "
    "run changes the file; the point x kind table is enumerated completely for each input (exhaustive over that table)"
)
ASSUMPTIONS = [
    "faults are injected at the Python call boundary (names as seen from vsg.apply_rules / process-wide os functions), not inside the kernel",
    "durability across power loss (no fsync in VSG) is outside the property",
]
EXHAUSTIVE = {"quick": True, "thorough": True}
CASE_TIME_LIMIT = 600

POINTS = ["copy2", "stat", "open", "write1", "write2", "close", "chmod", "replace", "remove"]
EXCS = {"EACCES": lambda: PermissionError(errno.EACCES, "Permission denied"), "ENOSPC": lambda: OSError(errno.ENOSPC, "No space left on device"), "EIO": lambda: OSError(errno.EIO, "Input/output error")}
KILL_POINTS = [("copy2", "before"), ("copy2", "after"), ("stat", "before"), ("open", "before"), ("open", "after"), ("write", "before"), ("write", "partial"), ("write", "after"), ("write:2", "before"), ("write:2", "after"), ("close", "before"), ("close", "after"), ("chmod", "before"), ("chmod", "after"), ("replace", "before"), ("replace", "after"), ("remove", "before")]
MODES = [0o644, 0o600, 0o755, 0o444, 0o664, 0o660]


def _inputs(tier):
    want = 3 if tier == "quick" else 12
    pref = ["tests/styles/code_examples/spi_slave.vhd", "tests/rule_doc/rule_doc_test_input.vhd"]
    out = [f for f in pref if f in corpus.files()]
    for f in corpus.files()[:: max(1, len(corpus.files()) // 40)]:
        if 10 <= len(corpus.lines(f)) <= 120 and f not in out:
            out.append(f)
        if len(out) >= want + 4:
            break
    return out[: want + 4]


def fixed_cases(tier):
    out = []
    ins = _inputs(tier)
    n_in = 3 if tier == "quick" else 10
    for fi, f in enumerate(ins[:n_in]):
        for backup in (False, True):
            modes = MODES if (tier == "thorough" or fi == 0) else [0o644, 0o444, 0o664]
            for mode in modes:
                out.append({"k": "inproc", "file": f, "backup": backup, "mode": mode})
        out.append({"k": "rule_raises", "file": f})
    kill_inputs = ins[:1] if tier == "quick" else ins[:4]
    for f in kill_inputs:
        for backup in (False, True):
            for kp in KILL_POINTS:
                if kp[0] == "copy2" and not backup:
                    continue
                out.append({"k": "kill", "file": f, "backup": backup, "mode": 0o640, "point": kp[0], "when": kp[1]})
    out.append({"k": "untouchable", "what": "unparsable"})
    out.append({"k": "untouchable", "what": "misconfigured"})
    return out


def _paths():
    d = os.path.join(vsgapi.scratch_dir(), "c16_%d" % os.getpid())
    os.makedirs(d, exist_ok=True)
    return d, os.path.join(d, "t.vhd")


def _fresh(fn, data, mode):
    for p in (fn, fn + ".tmp", fn + ".bak"):
        try:
            os.chmod(p, 0o644)
            os.remove(p)
        except OSError:
            pass
    with open(fn, "wb") as f:
        f.write(data)
    os.chmod(fn, mode)


class _FakeOS:
    def __init__(self, point, exc):
        self._point, self._exc = point, exc

    def __getattr__(self, name):
        real = getattr(os, name)
        if name == self._point:
            exc = self._exc

            def f(*a, **k):
                raise exc

            return f
        return real


class _FakeShutil:
    def __init__(self, exc):
        self._exc = exc

    def __getattr__(self, name):
        if name == "copy2":
            exc = self._exc

            def f(*a, **k):
                raise exc

            return f
        return getattr(shutil, name)


class _FakeFile:
    def __init__(self, real, failat, exc, partial, at_close):
        self.real, self.n, self.failat, self.exc, self.partial, self.at_close = real, 0, failat, exc, partial, at_close

    def write(self, s):
        self.n += 1
        if self.n == self.failat:
            if self.partial:
                self.real.write(s[: len(s) // 2])
                self.real.flush()
            raise self.exc
        return self.real.write(s)

    def __enter__(self):
        return self

    def __exit__(self, *a):
        self.real.close()
        if self.at_close and a[0] is None:
            raise self.exc
        return False


def _check(fn, orig, fixed, mode, backup, label, res, concrete, killed=False):
    b = open(fn, "rb").read() if os.path.exists(fn) else None
    m = stat.S_IMODE(os.stat(fn).st_mode) if os.path.exists(fn) else None

    def fail(kind, detail):
        sig = {"kind": kind, "point": label[0], "fault": label[1]}
        res["failures"].append({"sig": sig, "detail": dict(detail, label=label), "case": concrete})

    if b is None:
        fail("file_missing", {})
        return
    if b != orig and b != fixed:
        fail("content_neither_original_nor_fixed", {"len": len(b), "orig": len(orig), "fixed": len(fixed)})
    if m != mode:
        fail("mode_changed", {"mode": oct(m), "expected": oct(mode), "content": "fixed" if b == fixed else "orig"})
    if os.path.exists(fn + ".bak"):
        bb = open(fn + ".bak", "rb").read()
        if backup and bb != orig and not killed:
            fail("backup_not_faithful", {"len": len(bb), "orig": len(orig)})
        if backup and killed and bb != orig and label[0] != "copy2":
            fail("backup_not_faithful", {"len": len(bb), "orig": len(orig)})
    if os.path.exists(fn + ".tmp") and not killed:
        fail("tmp_left_after_non_fatal_failure", {})


def run_case(case, tier):
    res = {"labels": {}, "nontrivial": [], "failures": [], "evals": 0}
    lab = res["labels"]
    os.umask(0o022)
    ar = vsgapi.vsg_apply
    d, fn = _paths()
    if case["k"] == "untouchable":
        return _untouchable(case, res, fn)
    orig = (corpus.text(case["file"]) + "\n").encode("utf-8")
    mode = case.get("mode", 0o644)
    base_args = ["-p", "1", "-f", fn, "--fix"] + (["--backup"] if case.get("backup") else [])
    # fault-free reference
    _fresh(fn, orig, 0o644)
    code, out, err, exc = vsgapi.run_cli(base_args)
    if exc is not None:
        lab["reference_run_crashes_(C19)"] = 1
        return res
    fixed = open(fn, "rb").read()
    changes = fixed != orig
    concrete = dict(case)
    if case["k"] == "inproc":
        for point in POINTS:
            if point == "copy2" and not case["backup"]:
                continue
            kinds = list(EXCS)
            for kind in kinds:
                variants = [("none", False)]
                if point.startswith("write"):
                    variants = [("none", False), ("partial", True)]
                for vname, partial in variants:
                    _fresh(fn, orig, mode)
                    excobj = EXCS[kind]()
                    try:
                        if point in ("stat", "chmod", "replace", "remove"):
                            ar.os = _FakeOS(point, excobj)
                        elif point == "copy2":
                            ar.shutil = _FakeShutil(excobj)
                        else:
                            failat = {"write1": 1, "write2": 2}.get(point, 0)

                            def fopen(name, *a, _fa=failat, _p=point, **k):
                                if str(name).endswith(".tmp"):
                                    if _p == "open":
                                        raise excobj
                                    real = builtins.open(name, *a, **k)
                                    return _FakeFile(real, _fa, excobj, partial, _p == "close")
                                return builtins.open(name, *a, **k)

                            ar.open = fopen
                        code, out, err, exc = vsgapi.run_cli(base_args)
                    finally:
                        ar.os = os
                        ar.shutil = shutil
                        if "open" in ar.__dict__:
                            del ar.open
                    res["evals"] += 1
                    label = (point, kind + ("+short_write" if partial else ""))
                    _check(fn, orig, fixed, mode, case["backup"], label, res, concrete)
                    lab["outcome_exit_%s" % code if exc is None else "outcome_raised_%s" % type(exc).__name__] = lab.get("outcome_exit_%s" % code if exc is None else "outcome_raised_%s" % type(exc).__name__, 0) + 1
                    if changes:
                        res["nontrivial"].append(common.h(case["file"], case["backup"], mode, label))
        if changes and mode == 0o644 and not case["backup"]:
            res["sample"] = {"kind": "inproc", "file": case["file"], "mode": oct(mode), "backup": case["backup"], "points": POINTS, "faults": list(EXCS) + ["short write"], "fault_free_run_changes_file": changes}
        return res
    if case["k"] == "rule_raises":
        import vsg.rule as R

        n_calls = [0]
        orig_fix = R.Rule.__dict__["fix"]
        for k in (1, 40, 400, 800):
            _fresh(fn, orig, 0o644)
            n_calls[0] = 0

            def fix(self, oFile, dFixOnly=None, _k=k):
                n_calls[0] += 1
                if n_calls[0] == _k:
                    raise RuntimeError("injected rule failure")
                return orig_fix(self, oFile, dFixOnly)

            R.Rule.fix = fix
            try:
                code, out, err, exc = vsgapi.run_cli(base_args)
            finally:
                R.Rule.fix = orig_fix
            res["evals"] += 1
            b = open(fn, "rb").read()
            if exc is not None and b != orig:
                res["failures"].append({"sig": {"kind": "file_modified_although_fix_raised", "point": "rule_fix", "fault": "raise"}, "detail": {"k": k}, "case": concrete})
            _check(fn, orig, fixed, 0o644, False, ("rule_fix#%d" % k, "raise"), res, concrete)
            if changes:
                res["nontrivial"].append(common.h(case["file"], "rule", k))
        return res
    if case["k"] == "kill":
        _fresh(fn, orig, mode)
        env = dict(os.environ)
        env["PYTHONPATH"] = os.pathsep.join([os.path.join(vsgapi.VERIF, "harness", "inject"), vsgapi.REPO])
        env["VERIF_KILL"] = "%s:%s" % (case["point"].split(":")[0], case["when"]) + (":" + case["point"].split(":")[1] if ":" in case["point"] else "")
        env["VERIF_KILL_PATH"] = fn
        env.pop("VERIF_REEXEC", None)
        p = subprocess.run([sys.executable, os.path.join(vsgapi.REPO, "bin", "vsg")] + base_args, env=env, capture_output=True, timeout=300)
        res["evals"] += 1
        killed = p.returncode == -signal.SIGKILL
        lab["killed" if killed else "not_killed_exit_%s" % p.returncode] = 1
        label = (case["point"], "SIGKILL_" + case["when"])
        _check(fn, orig, fixed, mode, case["backup"], label, res, concrete, killed=killed)
        if not killed:
            # the injection point was not reached in this run (counted; the runner refuses a run in which no kill point is reached)
            lab["kill_point_not_reached:%s/%s" % (case["point"], case["when"])] = 1
        if changes and killed:
            res["nontrivial"].append(common.h(case["file"], case["backup"], label))
        if case["when"] == "partial":
            res["sample"] = {"kind": "kill", "file": case["file"], "point": case["point"], "when": case["when"], "backup": case["backup"], "content_after": "fixed" if open(fn, "rb").read() == fixed else "original", "tmp_left": os.path.exists(fn + ".tmp")}
        return res
    raise ValueError(case["k"])


def _untouchable(case, res, fn):
    d = os.path.dirname(fn)
    if case["what"] == "unparsable":
        data = b"\nentity e is\n  port (a : in bit\nend entity e;;\narchitecture a of e is begin end\n"
        args = ["-p", "1", "-f", fn, "--fix"]
    else:
        data = b"\nentity  e is\nend entity e;\n"
        args = ["-p", "1", "-f", fn, "--fix", "-c"] + vsgapi.write_conf_files([{"rule": {"bogus_001": {"disable": True}}}])
    for mode in MODES:
        for backup in (False, True):
            _fresh(fn, data, mode)
            st0 = os.stat(fn)
            code, out, err, exc = vsgapi.run_cli(args + (["--backup"] if backup else []))
            res["evals"] += 1
            b = open(fn, "rb").read()
            st1 = os.stat(fn)
            if b != data or stat.S_IMODE(st1.st_mode) != mode or st1.st_ino != st0.st_ino:
                res["failures"].append({"sig": {"kind": "unprocessable_file_modified", "point": case["what"], "fault": "none"}, "detail": {"mode": oct(mode), "backup": backup, "exit": code}, "case": case})
            if code != 1 and exc is None:
                res["labels"]["unprocessable_exit_%s" % code] = 1
            res["nontrivial"].append(common.h(case["what"], mode, backup))
    return res


def extra_evidence(results, tier):
    killed = sum(r.get("labels", {}).get("killed", 0) for r in results)
    if killed == 0:
        raise RuntimeError("no SIGKILL injection point was reached: the fault enumeration would be vacuous")
    return {"sigkill_points_reached": killed}
