"""C08 - what VSG writes is what it would read."""
from harness.oracles import common, fixprops

LEVEL = "exploration"
SEED_SPACE = {"quick": 32, "thorough": 4}
RULE = (
    "cases = (VHDL text, style, configuration): every fixture as is under the default and jcl styles, plus Hypothesis-drawn meaning-preserving "
    "re-layouts (levels 1-4: whitespace/case, line split/join, comments at line breaks, comments in whitespace gaps) of fixtures under style in "
    "{none, jcl, indent_only} and generated configurations; a monitored rule_list.fix() observes every rule application. "
    "oracle: the emitted text is accepted, and a fresh parse yields the same sequence of (token class, value) - whitespace, blank-line and "
    "carriage-return tokens included - and the same indent attribute per token as the in-memory model after fix; a CLI stage compares the report "
    "printed by --fix with the report of a following plain run. Cases in which a known corrupting finding (C01/C02 kind) fired are excluded and counted. "
    "non-trivial = the fix changed the number of tokens; distinct by hash(text, style, configuration)"
)
ASSUMPTIONS = ["token class = python class of the token object", "cases hit by a C01/C02 corruption are excluded (counted as excluded_downstream_by_corruption)"]
PROPS = ("C08",)


def fixed_cases(tier):
    return fixprops.fixed_cases_for(tier)


def n_generated(tier):
    return 300 if tier == "quick" else 6000


def strategy(tier):
    return fixprops.strategy_for(tier)


def _nontrivial(obs, new):
    return bool(obs.get("fired"))


def run_case(case, tier):
    res, obs = fixprops.run_props(case, tier, PROPS, _nontrivial)
    if "out_text" in obs and not obs.get("crash") and not obs["labels"].get("excluded_downstream_by_corruption") and (common.stable_seed(obs["out_text"][:200]) % 3 == 0 or "text" in case):
        _report_level(case, res)
    return res


def shrink(case, sig, tier, budget):
    return fixprops.shrink_generic(run_case, case, sig, tier, budget)


def _report_level(case, res):
    """end to end through the in-process CLI: the report printed by --fix == the report of a following plain run on the written file"""
    import json
    import os

    from harness import engine, vsgapi

    _, new, _, _ = common.realise_layout(case)
    style, conf = case.get("style"), case.get("conf")
    d = os.path.join(vsgapi.scratch_dir(), "c08_%d" % os.getpid())
    os.makedirs(d, exist_ok=True)
    fn = os.path.join(d, "x.vhd")
    with open(fn, "w") as fh:
        fh.write(new + "\n")
    base = ["-p", "1", "-f", fn] + (["--style", style] if style else []) + ((["-c"] + vsgapi.write_conf_files([conf])) if conf else [])
    out = {}
    for tag, extra in (("fix", ["--fix"]), ("fresh", [])):
        js = os.path.join(d, tag + ".json")
        if os.path.exists(js):
            os.remove(js)
        code, so, se, exc = vsgapi.run_cli(base + extra + ["-js", js])
        if exc is not None:
            res["labels"]["cli_crash_(C19)"] = 1
            return
        try:
            v = sorted((x["rule"], x["linenumber"], str(x["solution"]), x["severity"]) for x in json.load(open(js))["files"][0]["violations"])
        except Exception:
            v = None
        out[tag] = (code, v, "Error while processing" in se)
    res["labels"]["report_level_checks"] = 1
    a, b = out["fix"], out["fresh"]
    concrete = {"text": new, "style": style, "conf": conf}
    if b[2] and not a[2]:
        res["failures"].append({"sig": {"kind": "written_file_rejected_by_fresh_run"}, "detail": {}, "case": concrete})
    elif a[1] != b[1] or a[0] != b[0]:
        x = [t for t in (a[1] or []) if t not in (b[1] or [])]
        y = [t for t in (b[1] or []) if t not in (a[1] or [])]
        first = (x or y or [("?",)])[0]
        res["failures"].append({"sig": {"kind": "fix_report_differs_from_fresh_check", "site": engine.site_of_id(first[0]), "where": "only_in_fix_report" if x else "only_in_fresh_report" if y else "exit_status"},
                                "detail": {"only_fix_report": x[:3], "only_fresh_report": y[:3], "exit": (a[0], b[0])}, "case": concrete})
