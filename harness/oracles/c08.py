"""C08 - what VSG writes is what it would read."""
from harness.oracles import common, fixprops

LEVEL = "exploration"
RULE = (
    "cases = (VHDL text, style, configuration): every fixture as is under the default and jcl styles, plus Hypothesis-drawn meaning-preserving "
    "re-layouts (levels 1-4: whitespace/case, line split/join, comments at line breaks, comments in whitespace gaps) of fixtures under style in "
    "{none, jcl, indent_only} and generated configurations; a monitored rule_list.fix() observes every rule application. "
    "oracle: the emitted text is accepted, and a fresh parse yields the same sequence of (token class, value) - whitespace, blank-line and "
    "carriage-return tokens included - and the same indent attribute per token as the in-memory model after fix; a CLI stage compares the report "
    "printed by --fix with the report of a following plain run. Cases in which a known corrupting finding (C01/C02 kind) fired are excluded and counted. "
    "non-trivial = the fix changed the number of tokens; distinct by hash(text, style, configuration)"
)
ASSUMPTIONS = ["token class = python class of the token object", "cases hit by a C01/C02 corruption are excluded (counted as excluded_downstream_by_corruption)"]
PROPS = ("C08",)


def fixed_cases(tier):
    return fixprops.fixed_cases_for(tier)


def n_generated(tier):
    return 800 if tier == "quick" else 40000


def strategy(tier):
    return fixprops.strategy_for(tier)


def _nontrivial(obs, new):
    return bool(obs.get("fired"))


def run_case(case, tier):
    res, obs = fixprops.run_props(case, tier, PROPS, _nontrivial)
    return res


def shrink(case, sig, tier, budget):
    return fixprops.shrink_generic(run_case, case, sig, tier, budget)
