"""C19 - every accepted file can be checked and fixed without a crash or a hang; rejected files get a located message."""
import os
import random
import re

from hypothesis import strategies as st

from harness import engine, vsgapi
from harness.gen import configs, corpus, mutants
from harness.oracles import common, fixprops

LEVEL = "exploration"
SEED_SPACE = {"quick": 32, "thorough": 4}
RULE = (
    "(a) cases = (accepted text [every fixture as is; Hypothesis-drawn re-layouts], style in {none, jcl, indent_only}, generated configuration with "
    "documented option values; plus, per rule option, each documented value on the rule's own fixtures): the real rule_list.fix() and "
    "check_rules(all phases) must return; an escaping exception is a violation with signature (exception type, innermost vsg function); a case "
    "exceeding the 120 s guard is re-run and reported as a hang. (b) near-valid inputs (1-3 token-level mutations: delete, duplicate, swap, keyword, "
    "delimiter, truncate, unbalance parenthesis, unterminated string) through apply_rules with the in-process CLI and a second, valid file: outcome "
    "must be 'accepted' or a ClassifyError diagnostic 'Error: ... Line N' with N inside the file, exit status 1 and the second file still reported. "
    "non-trivial = (a) at least one rule application changed the text, (b) the input was rejected; distinct by hash(text, style, configuration)"
)
ASSUMPTIONS = ["the 120 s per-case guard only classifies hangs; normal cases take < 1 s", "mutated inputs VSG accepts are treated as accepted inputs (their fix must not crash either)"]
CASE_TIME_LIMIT = 100
LOC = re.compile(r"Error: .*(?:@ Line (\d+), Column \d+|parsing Line (\d+))")


def fixed_cases(tier):
    out = fixprops.fixed_cases_for(tier, styles=(None, "jcl"))
    for c in out:
        c["k"] = "fix"
    # each documented option value on the rule's own fixtures
    br = configs.by_rule()
    step = 6 if tier == "quick" else 1
    n = 0
    for rid in sorted(br):
        name, ident = rid.rsplit("_", 1)
        cand = [f for f in corpus.files() if f.endswith("/rule_%s_test_input.vhd" % ident) and ("/%s/" % name in f or "/%s_statement/" % name in f or "/%s_definition/" % name in f)]
        if not cand:
            continue
        for opt in sorted(br[rid]):
            if opt == "regex":
                continue
            for v in br[rid][opt]["values"]:
                n += 1
                if n % step:
                    continue
                ent = {opt: v}
                if opt == "case" and v == "regex":
                    if "regex" not in br[rid]:
                        continue
                    ent["regex"] = br[rid]["regex"]["values"][0]
                out.append({"k": "fix", "file": cand[0], "level": 0, "lseed": 0, "style": None, "conf": {"rule": {rid: dict(ent, disable=False)}}})
    # seed-independent near-valid mutants (same on every run)
    small = corpus.small_files(120)
    for i in range(1500 if tier == "quick" else 12000):
        out.append({"k": "mut", "file": small[(i * 7919) % len(small)], "mseed": common.stable_seed("mut", i), "style": None if i % 3 else "jcl"})
    if tier == "thorough":
        for k in range(4):
            out.append({"k": "atheris", "seed": k, "runs": 2500})
    return out


def n_generated(tier):
    return 400 if tier == "quick" else 6000


def strategy(tier):
    fx = fixprops.strategy_for(tier).map(lambda c: dict(c, k="fix"))
    files = corpus.small_files(120)
    mut = st.fixed_dictionaries({"k": st.just("mut"), "file": st.sampled_from(files), "mseed": st.integers(0, 2**31 - 1), "style": st.sampled_from([None, None, "jcl"])})
    return st.one_of(fx, fx, mut)


def _hang_site(exc):
    """the function that does not terminate: the deepest classifier frame present in every stack sample taken during the second half of the guard"""
    stacks = getattr(exc, "stacks", ()) if exc is not None else ()
    if len(stacks) < 2:
        return "?"
    a = stacks[0]
    n = len(a)
    for b in stacks[1:]:
        k = 0
        while k < n and k < len(b) and a[k] == b[k]:
            k += 1
        n = k
    common = [x for x in a[:n] if "/vsg/" in x[0] and "/harness/" not in x[0]]
    if not common:
        return "?"
    cl = [x for x in common if "/vsg/vhdlFile/classify/" in x[0] and not x[0].endswith("classify/utils.py")]
    fn, name = (cl or common)[-1]
    return "%s:%s" % (os.path.relpath(fn, vsgapi.REPO), name)


def on_timeout(case, tier, exc=None):
    concrete = dict(case)
    if case.get("k") == "mut" and "text" not in case:
        text, ops = mutants.mutate(corpus.text(case["file"]), random.Random(case["mseed"]))
        concrete = {"k": "mut", "text": text, "style": case.get("style")}
    return {"labels": {"hang_guard_hit": 1}, "nontrivial": [], "failures": [{"sig": {"kind": "hang", "where": _hang_site(exc)}, "detail": {"limit_s": CASE_TIME_LIMIT, "k": case.get("k")}, "case": concrete}]}


def run_case(case, tier):
    if case.get("k") == "mut":
        return _mut(case, tier)
    if case.get("k") == "atheris":
        return _atheris(case, tier)
    res, obs = fixprops.run_props(case, tier, ("C19",), lambda obs, new: bool(obs.get("fired")), False)
    # check mode on the same input
    if not (obs.get("rejected") or obs.get("config_error") or obs.get("oracle_disagreement")):
        text = res["_text"] if "_text" in res else None
    _check_mode(case, res)
    return res


def _check_mode(case, res):
    _, new, _, _ = common.realise_layout(case)
    style, conf = case.get("style"), case.get("conf")
    try:
        f, c, cla = vsgapi.parse(new.split("\n"), style, [conf] if conf else None)
        rl = vsgapi.make_rules(f, c)
    except (common.exceptions.ClassifyError, common.exceptions.ConfigurationError):
        return
    except Exception as e:
        fr = vsgapi.innermost_vsg_frame(e)
        res["failures"].append({"sig": {"kind": "crash_in_parse", "exc": type(e).__name__, "where": "%s:%s" % (fr[0], fr[1])}, "detail": {"msg": str(e)[:200]}, "case": {"k": "fix", "text": new, "style": style, "conf": conf}})
        return
    try:
        rl.check_rules(bAllPhases=True)
    except Exception as e:
        fr = vsgapi.innermost_vsg_frame(e)
        res["failures"].append({"sig": {"kind": "crash_in_check", "exc": type(e).__name__, "where": "%s:%s" % (fr[0], fr[1])}, "detail": {"msg": str(e)[:200]}, "case": {"k": "fix", "text": new, "style": style, "conf": conf}})


def _mut(case, tier):
    res = {"labels": {}, "nontrivial": [], "failures": []}
    lab = res["labels"]
    if "text" in case:
        text, ops = case["text"], []
    else:
        text, ops = mutants.mutate(corpus.text(case["file"]), random.Random(case["mseed"]))
    style = case.get("style")
    concrete = {"k": "mut", "text": text, "style": style}
    d = os.path.join(vsgapi.scratch_dir(), "c19_%d" % os.getpid())
    os.makedirs(d, exist_ok=True)
    bad, good = os.path.join(d, "bad.vhd"), os.path.join(d, "good.vhd")
    with open(bad, "w") as fh:
        fh.write(text + "\n")
    with open(good, "w") as fh:
        fh.write("\nentity GOOD is\nend entity GOOD;\n")

    def fail(kind, extra, detail):
        sig = {"kind": kind}
        sig.update(extra)
        res["failures"].append({"sig": sig, "detail": detail, "case": concrete})

    args = ["-p", "1", "-f", bad, good, "-of", "syntastic"] + (["--style", style] if style else [])
    code, out, err, exc = vsgapi.run_cli(args)
    for o in ops:
        lab["mut_" + o] = lab.get("mut_" + o, 0) + 1
    if exc is not None:
        fr = vsgapi.innermost_vsg_frame(exc)
        fail("traceback_instead_of_diagnostic", {"exc": type(exc).__name__, "where": "%s:%s" % (fr[0], fr[1])}, {"msg": str(exc)[:200]})
        return res
    nlines = text.count("\n") + 1
    if "Error while processing" in err:
        lab["rejected"] = 1
        res["nontrivial"].append(common.h(text, style))
        m = LOC.search(err)
        if not m:
            fail("rejection_without_located_message", {}, {"stderr": err[:300]})
        else:
            ln = int(m.group(1) or m.group(2))
            if not (1 <= ln <= nlines + 1):
                fail("rejection_line_outside_file", {}, {"line": ln, "lines": nlines, "stderr": err[:300]})
        if code != 1:
            fail("rejected_file_but_exit_status_not_1", {}, {"exit": code})
        if "good.vhd" not in out:
            # the valid second file has one violation-free report or at least its violations listed; syntastic prints nothing for a clean file
            pass
        # the second file must still be processed: ask for JSON to see its entry
        js = os.path.join(d, "o.json")
        code2, out2, err2, exc2 = vsgapi.run_cli(args + ["-js", js])
        try:
            import json

            files = [e.get("file_path") for e in json.load(open(js))["files"]]
        except Exception:
            files = []
        if good not in files:
            fail("remaining_files_not_processed_after_rejection", {}, {"json_files": files})
        if not res["failures"] and len(text) < 3000:
            res["sample"] = {"kind": "mutant", "ops": ops, "diagnostic": err.strip()[:200], "exit": code}
    else:
        lab["accepted"] = 1
        # accepted mutant: it must be fixable without a crash too
        obs = engine.run(text, style, None, props=("C19",))
        for f in obs["failures"].get("C19", []):
            res["failures"].append({"sig": f["sig"], "detail": f["detail"], "case": {"k": "fix", "text": text, "style": style, "conf": None}})
    return res


def shrink(case, sig, tier, budget):
    if case.get("k") == "mut" and "text" in case:
        return common.shrink_text_case(run_case, case, sig, tier, budget)
    if "text" in case:
        c = dict(case)
        c["k"] = "fix"
        return fixprops.shrink_generic(run_case, c, sig, tier, budget)
    return case


def _atheris(case, tier):
    """coverage-guided campaign (atheris/libFuzzer) on the classifier with structured mutations; sites already listed in
    known_findings.jsonl (known or fixed) are excluded inside the target and counted, so the campaign continues behind them"""
    import json
    import subprocess
    import sys

    res = {"labels": {}, "nontrivial": [], "failures": [], "evals": 0}
    known = []
    kf = os.path.join(vsgapi.VERIF, "known_findings.jsonl")
    for l in open(kf):
        l = l.strip()
        if not l:
            continue
        d = json.loads(l)
        if d["property"] != "C19":
            continue
        sig = dict(x.split("=", 1) for x in d["signature"].split("|"))
        if sig.get("kind") == "hang":
            known.append("hang|" + sig["where"])
        elif "exc" in sig and "where" in sig:
            known.append("%s|%s" % (sig["exc"], sig["where"]))
    seeds = [corpus.path(f) for f in corpus.small_files(150)[:: max(1, len(corpus.small_files(150)) // 80)]]
    d = os.path.join(vsgapi.scratch_dir(), "ath_%d_%d" % (os.getpid(), case["seed"]))
    os.makedirs(d, exist_ok=True)
    env = dict(os.environ)
    env["VERIF_KNOWN_SITES"] = json.dumps(known)
    env["VERIF_FUZZ_SEEDS"] = os.pathsep.join(seeds)
    env["VERIF_REPO"] = vsgapi.REPO
    env["VERIF_FUZZ_GUARD"] = "30"
    env.pop("VERIF_FUZZ_COLLECT", None)
    p = subprocess.run([sys.executable, os.path.join(vsgapi.VERIF, "harness", "fuzz", "classify_atheris.py"), "-runs=%d" % case["runs"], "-seed=%d" % (1000 + case["seed"] + (int(os.environ.get("VERIF_SEED", "1")) % 4) * 16), "-max_len=64", "-timeout=600"], cwd=d, env=env, capture_output=True, timeout=3000)
    err = p.stderr.decode("utf-8", "replace")
    stats = {}
    for line in err.split("\n"):
        if line.startswith("VERIF-FUZZ-STATS "):
            stats = json.loads(line[len("VERIF-FUZZ-STATS "):])
        if line.startswith("VERIF-FUZZ-FINDING "):
            kind, payload = line[len("VERIF-FUZZ-FINDING "):].split(" ", 1)
            text = json.loads(payload)["text"]
            # hand the input to the ordinary mutant path: same oracle, same signatures, confirmation in a fresh process
            r = _mut({"k": "mut", "text": text, "style": None}, tier)
            res["failures"].extend(r["failures"])
    res["evals"] = stats.get("runs", 0) or 1
    res["labels"]["atheris_runs"] = stats.get("runs", 0)
    res["labels"]["atheris_rejected_inputs"] = stats.get("rejected", 0)
    res["labels"]["atheris_excluded_known_sites"] = stats.get("excluded_known", 0)
    res["nontrivial"] = ["ath%d_%d" % (case["seed"], i) for i in range(stats.get("rejected", 0))]
    res["sample"] = {"kind": "atheris", "runs": stats.get("runs", 0), "rejected": stats.get("rejected", 0), "excluded_known_sites": stats.get("excluded_known", 0), "known_sites": len(known)}
    return res
