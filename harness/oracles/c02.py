"""C02 - comments, pragmas and preprocessor lines survive fixing verbatim (per rule application)."""
from harness.oracles import common, fixprops

LEVEL = "exploration"
SEED_SPACE = {"quick": 32, "thorough": 4}
RULE = (
    "cases = (VHDL text, style, configuration): every fixture as is under the default and jcl styles, plus Hypothesis-drawn meaning-preserving "
    "re-layouts (levels 1-4: whitespace/case, line split/join, comments at line breaks, comments in whitespace gaps) of fixtures under style in "
    "{none, jcl, indent_only} and generated configurations; a monitored rule_list.fix() observes every rule application. "
    "oracle: for every rule application that changed the text, the sequence of (kind, text) of comment / delimited-comment / preprocessor atoms "
    "(independent lexer, trailing blanks stripped) is unchanged, except whitespace normalisation by the documented comment rules and removal by the "
    "allow-listed rules (tables/comment_allowlist.json). non-trivial = the input has a comment inside a statement (a comment whose neighbours on both "
    "sides are code of the same statement) and the fix changed the text; distinct by hash(text, style, configuration)"
)
ASSUMPTIONS = ["independent lexer decides what is a comment", "allow-list of comment-removing rules transcribed from the rule documentation"]
PROPS = ("C02",)


def fixed_cases(tier):
    return fixprops.fixed_cases_for(tier)


def n_generated(tier):
    return 300 if tier == "quick" else 6000


def strategy(tier):
    return fixprops.strategy_for(tier)


def _nontrivial(obs, new):
    return bool(obs.get("fired")) and _comment_inside_statement(new)


def run_case(case, tier):
    res, obs = fixprops.run_props(case, tier, PROPS, _nontrivial)
    return res


def shrink(case, sig, tier, budget):
    return fixprops.shrink_generic(run_case, case, sig, tier, budget)


def _comment_inside_statement(text):
    """a -- comment followed (on a later line) by code that continues the same statement: previous code atom is not ; / begin / is / then ..."""
    from harness import lexer

    at = lexer.lex(text)
    prev_code = None
    for i, a in enumerate(at):
        if a.kind == "comment":
            if prev_code is not None and prev_code.value.lower() not in (";", "begin", "is", "then", "else", "loop", "generate"):
                nxt = next((b for b in at[i + 1 :] if b.kind not in lexer.COMMENT_KINDS), None)
                if nxt is not None:
                    return True
        elif a.kind not in lexer.COMMENT_KINDS:
            prev_code = a
    return False
