"""C03 - each phase only makes the kind of change it is documented to make."""
from harness.oracles import common, fixprops

LEVEL = "exploration"
SEED_SPACE = {"quick": 32, "thorough": 4}
RULE = (
    "cases = (VHDL text, style, configuration): every fixture as is under the default and jcl styles, plus Hypothesis-drawn meaning-preserving "
    "re-layouts (levels 1-4: whitespace/case, line split/join, comments at line breaks, comments in whitespace gaps) of fixtures under style in "
    "{none, jcl, indent_only} and generated configurations; a monitored rule_list.fix() observes every rule application. "
    "oracle per application, by the rule's documented group: whitespace/blank_line/indent/alignment rules keep the exact code-atom sequence and the "
    "comments (modulo whitespace) and - except blank_line rules - the line count; blank_line rules keep every non-blank line; case rules keep every "
    "line length, change only letter case, only inside identifier/keyword atoms, keyword-case rules only reserved words and name/label-case rules "
    "only non-reserved identifiers; naming/length rules, unfixable rules, fixable:false, disabled and warning-severity rules never change the text and "
    "fix() is never entered for disabled or warning rules. A static table check compares every rule's docs tag line with its metadata. "
    "non-trivial = (rule, case) pairs in which the rule changed the text, counted per distinct case; distinct by hash(text, style, configuration)"
)
ASSUMPTIONS = ["rule groups are taken from the rule objects and cross-checked against the docs tag lines (static part)", "reserved-word list of VHDL-2008 + PSL keywords"]
PROPS = ("C03",)


def fixed_cases(tier):
    return [{"k": "docs_table"}] + fixprops.fixed_cases_for(tier)


def n_generated(tier):
    return 300 if tier == "quick" else 6000


def strategy(tier):
    return fixprops.strategy_for(tier)


def _nontrivial(obs, new):
    return bool(obs.get("fired"))


def run_case(case, tier):
    if case.get("k") == "docs_table":
        return _docs_table(case)
    res, obs = fixprops.run_props(case, tier, PROPS, _nontrivial)
    return res


def shrink(case, sig, tier, budget):
    return fixprops.shrink_generic(run_case, case, sig, tier, budget)


def _docs_table(case):
    """static part (exhaustive over the rule set): docs tag line of every rule vs the rule object's metadata"""
    import glob
    import os
    import re

    from harness import vsgapi

    res = {"labels": {}, "nontrivial": [], "failures": [], "evals": 0}
    tbl = {}
    for fn in sorted(glob.glob(os.path.join(vsgapi.REPO, "docs", "*_rules.rst"))):
        lines = open(fn).read().split("\n")
        for i in range(len(lines) - 1):
            if re.fullmatch(r"[a-z_0-9]+_\d\d\d", lines[i]) and lines[i + 1].startswith("###"):
                j = i + 2
                while j < len(lines) and not lines[j].strip():
                    j += 1
                tbl[lines[i]] = re.findall(r"\|([a-z_0-9:]+)\|", lines[j]) if j < len(lines) else []
    rules = [r for r in vsgapi.rule_list.load_rules() if not r.deprecated and not r.proposed]
    for r in rules:
        res["evals"] += 1
        tags = tbl.get(r.unique_id)

        def fail(kind, detail):
            res["failures"].append({"sig": {"kind": kind, "site": r.unique_id}, "detail": detail, "case": {"k": "docs_table"}})

        if tags is None:
            fail("rule_not_documented", {})
            continue
        res["nontrivial"].append("doc:" + r.unique_id)
        ph = [int(t[6:]) for t in tags if t.startswith("phase_")]
        if ph and ph[0] != r.phase:
            fail("documented_phase_differs", {"docs": ph[0], "rule": r.phase})
        if ("unfixable" in tags) != (not r.fixable):
            fail("documented_fixability_differs", {"docs": tags, "fixable": r.fixable})
        if ("disabled" in tags) != bool(r.disable):
            fail("documented_default_enable_differs", {"docs": tags, "disable": r.disable})
        if ("warning" in tags) != (r.severity.type == "warning"):
            fail("documented_severity_differs", {"docs": tags, "severity": r.severity.name})
        dg = set(t for t in tags if t in ("structure", "whitespace", "blank_line", "indent", "alignment", "case", "naming", "length"))
        g = set(x.split("::")[0] for x in r.groups)
        if dg != g:
            fail("documented_group_differs", {"docs": sorted(dg), "groups": sorted(r.groups)})
    res["labels"]["docs_table_rules"] = res["evals"]
    res["sample"] = {"kind": "docs_table", "rules_compared": res["evals"], "example": {"rule": rules[0].unique_id, "docs_tags": tbl.get(rules[0].unique_id), "phase": rules[0].phase, "groups": rules[0].groups}}
    return res
