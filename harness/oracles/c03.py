"""C03 - each phase only makes the kind of change it is documented to make."""
from harness.oracles import common, fixprops

LEVEL = "exploration"
RULE = (
    "cases = (VHDL text, style, configuration): every fixture as is under the default and jcl styles, plus Hypothesis-drawn meaning-preserving "
    "re-layouts (levels 1-4: whitespace/case, line split/join, comments at line breaks, comments in whitespace gaps) of fixtures under style in "
    "{none, jcl, indent_only} and generated configurations; a monitored rule_list.fix() observes every rule application. "
    "oracle per application, by the rule's documented group: whitespace/blank_line/indent/alignment rules keep the exact code-atom sequence and the "
    "comments (modulo whitespace) and - except blank_line rules - the line count; blank_line rules keep every non-blank line; case rules keep every "
    "line length, change only letter case, only inside identifier/keyword atoms, keyword-case rules only reserved words and name/label-case rules "
    "only non-reserved identifiers; naming/length rules, unfixable rules, fixable:false, disabled and warning-severity rules never change the text and "
    "fix() is never entered for disabled or warning rules. A static table check compares every rule's docs tag line with its metadata. "
    "non-trivial = (rule, case) pairs in which the rule changed the text, counted per distinct case; distinct by hash(text, style, configuration)"
)
ASSUMPTIONS = ["rule groups are taken from the rule objects and cross-checked against the docs tag lines (static part)", "reserved-word list of VHDL-2008 + PSL keywords"]
PROPS = ("C03",)


def fixed_cases(tier):
    return fixprops.fixed_cases_for(tier)


def n_generated(tier):
    return 2500 if tier == "quick" else 40000


def strategy(tier):
    return fixprops.strategy_for(tier)


def _nontrivial(obs, new):
    return bool(obs.get("fired"))


def run_case(case, tier):
    res, obs = fixprops.run_props(case, tier, PROPS, _nontrivial)
    return res


def shrink(case, sig, tier, budget):
    return fixprops.shrink_generic(run_case, case, sig, tier, budget)
