"""C14 - exit status and every report format tell the same story (in-process CLI, all artefacts of one run parsed back)."""
import collections
import json
import os
import random
import re
import xml.etree.ElementTree as ET

from hypothesis import strategies as st

from harness import vsgapi
from harness.gen import corpus
from harness.oracles import common

LEVEL = "exploration"
RULE = (
    "cases = (1-3 files: fixtures / re-layouts, sometimes one that VSG rejects; a configuration defining user severities Todo(error) and Note(warning) "
    "and assigning severities globally, per group and per rule; -of in {vsg, syntastic, summary}; with/without -ap; --json, --junit and "
    "--quality_report written by the same run). oracle: every artefact is parsed back to a multiset of (file, rule, line, solution[, severity]); "
    "JSON == quality report == stdout table/syntastic lines; JUnit == the error-type subset; printed totals and per-severity counts == number of "
    "entries; summary OK/ERROR per file and the process exit status == (an error-type violation or a processing error exists). non-trivial = the run "
    "has at least one error-type and one warning-type violation; distinct by hash(files, configuration, options)"
)
ASSUMPTIONS = ["the quality report's critical/minor mapping is presentation and is not compared", "severity type of a name is taken from the generated configuration (Error/Warning built in)"]
SEV_TYPE = {"Error": "error", "Warning": "warning", "Todo": "error", "Note": "warning"}
GROUPS = ["alignment", "blank_line", "case", "case::keyword", "indent", "structure", "whitespace", "naming", "length"]


def _small():
    return corpus.small_files(80)


def fixed_cases(tier):
    out = []
    files = _small()
    step = 8 if tier == "quick" else 2
    for i, f in enumerate(files[::step]):
        out.append({"files": [f], "cseed": common.stable_seed(f), "fmt": ["vsg", "syntastic", "summary"][i % 3], "ap": i % 2 == 0})
    for i, bad in enumerate(["garbage", "unterminated", "misconfigured"]):
        for fmt in ("vsg", "syntastic", "summary"):
            out.append({"files": files[i * 3 : i * 3 + 2], "cseed": i, "fmt": fmt, "ap": bool(i % 2), "bad": bad})
    return out


def n_generated(tier):
    return 1200 if tier == "quick" else 20000


def strategy(tier):
    files = _small()
    return st.fixed_dictionaries(
        {
            "files": st.lists(st.sampled_from(files), min_size=1, max_size=3, unique=True),
            "cseed": st.integers(0, 2**31 - 1),
            "fmt": st.sampled_from(["vsg", "syntastic", "summary"]),
            "ap": st.booleans(),
            "bad": st.sampled_from([None, None, None, "garbage", "unterminated", "misconfigured"]),
        }
    )


def make_conf(rnd, rules_hint):
    conf = {"severity": {"Todo": {"type": "error"}, "Note": {"type": "warning"}}, "rule": {}}
    r = rnd.random()
    if r < 0.5:
        conf["rule"]["global"] = {"severity": rnd.choice(["Warning", "Todo", "Note", "Error"])}
    if rnd.random() < 0.5:
        conf["rule"]["group"] = {g: {"severity": rnd.choice(["Warning", "Todo", "Note", "Error"])} for g in rnd.sample(GROUPS, k=rnd.randint(1, 3))}
    for rid in rnd.sample(rules_hint, k=min(len(rules_hint), rnd.randint(0, 5))):
        conf["rule"][rid] = {"severity": rnd.choice(["Warning", "Todo", "Note", "Error"])}
    return conf


ROW = re.compile(r"^  (\S+)\s+\| (.*?)\s+\|\s+(\d+) \| (.*)$")
SYN = re.compile(r"^(ERROR|WARNING): (.*?)\((\d+)\)([a-z_0-9]+_\d{3}) -- (.*)$")
SUM = re.compile(r"^File: (.*) (OK|ERROR) \((\d+) rules checked\)((?: \[[^\]]+: \d+\])*)$")


def run_case(case, tier):
    res = {"labels": {}, "nontrivial": [], "failures": []}
    lab = res["labels"]
    d = os.path.join(vsgapi.scratch_dir(), "c14_%d" % os.getpid())
    os.makedirs(d, exist_ok=True)
    rnd = random.Random(case["cseed"])
    texts = case.get("texts") or [corpus.text(f) for f in case["files"]]
    if not case.get("texts") and case.get("bad") in ("garbage", "unterminated"):
        texts = list(texts) + ["entity e is port (a : in bit; end entity;" if case["bad"] == "unterminated" else "this is ( not vhdl ;; end"]
    names = []
    for i, t in enumerate(texts):
        fn = os.path.join(d, "f%d.vhd" % i)
        with open(fn, "w") as fh:
            fh.write(t + "\n")
        names.append(fn)
    if "conf" in case:
        conf = case["conf"]
    else:
        # rules that report on the first file, to make per-rule severities matter
        hint = []
        try:
            f, c, cla = vsgapi.parse(texts[0].split("\n"))
            rl = vsgapi.make_rules(f, c)
            rl.check_rules(True)
            hint = sorted(set(v[0] for v in vsgapi.violations_of(rl)))
        except Exception:
            pass
        conf = make_conf(rnd, hint)
        if case.get("bad") == "misconfigured":
            # a configuration that cannot be applied (unknown rule): every file fails to configure
            conf["rule"]["bogus_001"] = {"disable": True}
    concrete = {"texts": texts, "conf": conf, "fmt": case["fmt"], "ap": case["ap"], "cseed": case["cseed"]}
    js, ju, qr = os.path.join(d, "o.json"), os.path.join(d, "o.xml"), os.path.join(d, "o.qr.json")
    for p in (js, ju, qr):
        if os.path.exists(p):
            os.remove(p)
    args = ["-p", "1", "-f"] + names + ["-c"] + vsgapi.write_conf_files([conf]) + ["-of", case["fmt"], "-js", js, "-j", ju, "--quality_report", qr]
    if case["ap"]:
        args.append("-ap")
    code, out, err, exc = vsgapi.run_cli(args)

    def fail(kind, detail):
        res["failures"].append({"sig": {"kind": kind, "fmt": case["fmt"]}, "detail": detail, "case": concrete})

    if exc is not None:
        fr = vsgapi.innermost_vsg_frame(exc)
        res["failures"].append({"sig": {"kind": "run_ends_in_traceback", "exc": type(exc).__name__, "where": "%s:%s" % (fr[0], fr[1])}, "detail": {"msg": str(exc)[:200], "bad": case.get("bad")}, "case": concrete})
        return res
    try:
        J = json.load(open(js))
        Q = json.load(open(qr))
        X = ET.parse(ju).getroot()
    except Exception as e:
        fail("artefact_missing_or_unparsable", {"error": repr(e)[:200], "exit": code, "stderr": err[:200]})
        return res
    jv = collections.Counter()
    sev_of = collections.Counter()
    per_file_err = collections.Counter()
    per_file_sev = {}
    for fe in J["files"]:
        fp = fe.get("file_path")
        per_file_sev.setdefault(fp, collections.Counter())
        for v in fe.get("violations", []):
            sol = str(v["solution"]).strip()  # artefacts are compared modulo leading/trailing blanks of the solution text
            jv[(fp, v["rule"], int(v["linenumber"]), sol)] += 1
            sev_of[(fp, v["rule"], int(v["linenumber"]), sol, v["severity"])] += 1
            per_file_sev[fp][v["severity"]] += 1
            if SEV_TYPE.get(v["severity"]) == "error":
                per_file_err[fp] += 1
    processing_error = "Error while processing" in err
    rejected = set(n for n in names if ("Error while processing %s" % n) in err)
    # quality report
    qv = collections.Counter()
    for e in Q:
        rule, _, sol = e["description"].partition(" :: ")
        qv[(e["location"]["path"], rule, int(e["location"]["lines"]["begin"]), sol.strip())] += 1
    if qv != jv:
        fail("quality_report_differs_from_json", {"only_json": list((jv - qv))[:2], "only_quality": list((qv - jv))[:2]})
    # junit
    xv = collections.Counter()
    for tc in X.iter("testcase"):
        for fl in tc.iter("failure"):
            for line in (fl.text or "").split("\n"):
                line = line.strip()
                if not line:
                    continue
                m = re.match(r"^([a-z_0-9]+_\d{3}): (\d+) : (.*)$", line)
                if m:
                    xv[(tc.get("name"), m.group(1), int(m.group(2)), _unxml(m.group(3)).strip())] += 1
    je = collections.Counter({k[:4]: n for k, n in sev_of.items() if SEV_TYPE.get(k[4]) == "error"})
    je2 = collections.Counter()
    for k, n in je.items():
        je2[k] += n
    if xv != je2:
        fail("junit_differs_from_error_subset_of_json", {"only_json_errors": list((je2 - xv))[:2], "only_junit": list((xv - je2))[:2]})
    # stdout
    if case["fmt"] == "vsg":
        sv = collections.Counter()
        cur = None
        blocks = {}
        for line in out.split("\n"):
            if line.startswith("File:  "):
                cur = line[len("File:  ") :]
                blocks[cur] = {"rows": 0, "total": None, "sev": {}}
                continue
            if cur is None:
                continue
            m = ROW.match(line)
            if m and m.group(1) != "Rule":
                sv[(cur, m.group(1), int(m.group(3)), m.group(4).strip())] += 1
                blocks[cur]["rows"] += 1
                blocks[cur]["sev"].setdefault("row:" + m.group(2), 0)
                blocks[cur]["sev"]["row:" + m.group(2)] += 1
                continue
            m = re.match(r"^Total Violations:\s+(\d+)$", line)
            if m:
                blocks[cur]["total"] = int(m.group(1))
            m = re.match(r"^  (\S+)\s+:\s+(\d+)$", line)
            if m:
                blocks[cur]["sev"]["count:" + m.group(1)] = int(m.group(2))
        jn = collections.Counter({(k[0], k[1], k[2], k[3] if k[3] != "None" else "None"): n for k, n in jv.items()})
        if sv != jn:
            fail("stdout_table_differs_from_json", {"only_json": list((jn - sv))[:2], "only_stdout": list((sv - jn))[:2]})
        for fn_, b in blocks.items():
            if b["total"] is not None and b["total"] != b["rows"]:
                fail("printed_total_differs_from_rows", {"file": fn_, "total": b["total"], "rows": b["rows"]})
            for k, n in b["sev"].items():
                if k.startswith("count:"):
                    rows = b["sev"].get("row:" + k[6:], 0)
                    if rows != n:
                        fail("printed_severity_count_differs_from_rows", {"file": fn_, "severity": k[6:], "count": n, "rows": rows})
    elif case["fmt"] == "syntastic":
        sv = collections.Counter()
        typ = collections.Counter()
        for line in out.split("\n"):
            m = SYN.match(line)
            if m:
                sv[(m.group(2), m.group(4), int(m.group(3)), m.group(5).strip())] += 1
                typ[(m.group(2), m.group(4), int(m.group(3)), m.group(5).strip(), m.group(1))] += 1
            elif line.strip():
                lab["syntastic_unparsed_lines"] = lab.get("syntastic_unparsed_lines", 0) + 1
        if sv != jv:
            fail("syntastic_lines_differ_from_json", {"only_json": list((jv - sv))[:2], "only_stdout": list((sv - jv))[:2]})
        for k, n in sev_of.items():
            want = "ERROR" if SEV_TYPE.get(k[4]) == "error" else "WARNING"
            if typ.get(k[:4] + (want,), 0) < n:
                fail("syntastic_severity_word_wrong", {"violation": k})
                break
    else:
        seen = {}
        for stream, text in (("stdout", out), ("stderr", err)):
            for line in text.split("\n"):
                m = SUM.match(line)
                if m:
                    counts = dict((a, int(b)) for a, b in re.findall(r"\[([^\]:]+): (\d+)\]", m.group(4)))
                    seen[m.group(1)] = (m.group(2), counts, stream)
        config_error = "referenced in configuration could not be found" in err or "Invalid configuration" in err
        for fn_ in names:
            if fn_ in rejected:
                continue
            if fn_ not in seen:
                if not config_error:
                    # (after a configuration error VSG stops processing the remaining files by design)
                    fail("summary_line_missing", {"file": fn_})
                continue
            word, counts, stream = seen[fn_]
            want = "ERROR" if per_file_err.get(fn_, 0) > 0 else "OK"
            if word != want:
                fail("summary_word_disagrees_with_error_violations", {"file": fn_, "printed": word, "error_type_violations": per_file_err.get(fn_, 0), "counts": counts})
            for s, n in counts.items():
                if per_file_sev.get(fn_, {}).get(s, 0) != n:
                    fail("summary_count_differs_from_json", {"file": fn_, "severity": s, "printed": n, "json": per_file_sev.get(fn_, {}).get(s, 0)})
            if (stream == "stderr") != (want == "ERROR") and word == want:
                fail("summary_stream_wrong", {"file": fn_, "stream": stream, "word": word})
    # exit status
    any_err = sum(per_file_err.values()) > 0
    want_exit = 1 if (any_err or processing_error) else 0
    if code != want_exit:
        fail("exit_status_disagrees_with_reports", {"exit": code, "error_type_violations": sum(per_file_err.values()), "processing_error": processing_error})
    n_warn = sum(n for k, n in sev_of.items() if SEV_TYPE.get(k[4]) == "warning")
    lab["fmt_" + case["fmt"]] = 1
    lab["files_%d" % len(names)] = 1
    if rejected:
        lab["with_rejected_file"] = 1
    if any_err and n_warn:
        res["nontrivial"].append(common.h(texts, conf, case["fmt"], case["ap"]))
        if not res["failures"]:
            res["sample"] = {"files": case.get("files"), "fmt": case["fmt"], "ap": case["ap"], "exit": code, "violations": sum(jv.values()), "error_type": sum(per_file_err.values()), "warning_type": n_warn, "conf_rule_keys": sorted(conf["rule"])[:6]}
    return res


def _unxml(s):
    return s.replace("&lt;", "<").replace("&gt;", ">").replace("&quot;", '"').replace("&apos;", "'").replace("&amp;", "&")
