"""Thin, real-API access to the VSG under test (always /repo's working tree, or $VERIF_REPO)."""
import contextlib
import copy
import hashlib
import io
import json
import os
import sys
import tempfile
import traceback

REPO = os.path.realpath(os.environ.get("VERIF_REPO", "/repo"))
VERIF = os.path.dirname(os.path.dirname(os.path.abspath(__file__)))
if sys.path[0:1] != [REPO]:
    sys.path.insert(0, REPO)
sys.setrecursionlimit(20000)

import warnings

warnings.simplefilter("ignore", SyntaxWarning)

import vsg  # noqa: E402

if not os.path.realpath(vsg.__file__).startswith(REPO + os.sep):
    sys.stderr.write("HARNESS ERROR: vsg imported from %s, expected under %s\n" % (vsg.__file__, REPO))
    sys.exit(2)

from vsg import config, exceptions, parser, rule_list, severity  # noqa: E402
from vsg import __main__ as vsg_main  # noqa: E402
from vsg import apply_rules as vsg_apply  # noqa: E402
import vsg.vhdlFile as VF  # noqa: E402
from vsg.token import delimited_comment, pragma as pragma_tok  # noqa: E402

WS_CLASSES = (parser.whitespace, parser.carriage_return, parser.blank_line)
COMMENT_CLASSES = (
    parser.comment,
    delimited_comment.beginning,
    delimited_comment.text,
    delimited_comment.ending,
    pragma_tok.pragma,
    parser.preprocessor,
)

_SCRATCH = None


def scratch_dir():
    """per-process scratch directory (removed by the runner at exit)"""
    global _SCRATCH
    if _SCRATCH is None or not os.path.isdir(_SCRATCH) or _SCRATCH_PID[0] != os.getpid():
        base = os.environ.get("VERIF_SCRATCH") or tempfile.gettempdir()
        _SCRATCH = tempfile.mkdtemp(prefix="vsgverif_%d_" % os.getpid(), dir=base)
        _SCRATCH_PID[0] = os.getpid()
    return _SCRATCH


_SCRATCH_PID = [None]


class CLA:
    """Stand-in for the argparse namespace, with every attribute the code under test reads."""

    def __init__(self, style=None, configuration=None, **kw):
        self.version = False
        self.style = style
        self.configuration = list(configuration or [])
        self.debug = False
        self.fix_only = None
        self.stdin = False
        self.force_fix = False
        self.fix = False
        self.junit = None
        self.json = None
        self.quality_report = None
        self.local_rules = None
        self.filename = []
        self.backup = False
        self.fix_phase = 7
        self.skip_phase = []
        self.all_phases = False
        self.output_format = "vsg"
        self.jobs = 1
        self.output_configuration = None
        self.rule_configuration = None
        self.__dict__.update(kw)


def read_file(fn):
    """same decoding as vsg (utf-8 then latin-1); returns list of lines without line ends"""
    try:
        txt = open(fn, encoding="utf-8").read()
    except UnicodeDecodeError:
        txt = open(fn, encoding="ISO-8859-1").read()
    return text_to_lines(txt)


def text_to_lines(txt):
    lines = [l.rstrip("\r") for l in txt.split("\n")]
    if txt.endswith("\n"):
        lines = lines[:-1]
    return lines


def write_conf_files(conf_dicts, as_yaml=()):
    """materialise configuration dictionaries as files (content-addressed) and return their names"""
    names = []
    for i, d in enumerate(conf_dicts or []):
        blob = json.dumps(d, sort_keys=True)
        h = hashlib.sha1(blob.encode()).hexdigest()[:16]
        if i in as_yaml:
            import yaml

            fn = os.path.join(scratch_dir(), "c_%s.yaml" % h)
            if not os.path.exists(fn):
                with open(fn, "w") as f:
                    yaml.safe_dump(d, f)
        else:
            fn = os.path.join(scratch_dir(), "c_%s.json" % h)
            if not os.path.exists(fn):
                with open(fn, "w") as f:
                    f.write(blob)
        names.append(fn)
    return names


_CONF_CACHE = {}


def get_config(style=None, conf_dicts=None, cache=True):
    """config.New through the real code path; returns (oConfig, cla)"""
    key = (style, json.dumps(conf_dicts, sort_keys=True) if conf_dicts else None)
    if cache and key in _CONF_CACHE and _CONF_CACHE[key][2] == os.getpid():
        c, cla, _ = _CONF_CACHE[key]
        return c, cla
    cla = CLA(style=style, configuration=write_conf_files(conf_dicts))
    with contextlib.redirect_stdout(io.StringIO()):
        c = config.New(cla)
    if cache:
        _CONF_CACHE[key] = (c, cla, os.getpid())
    return c, cla


def parse(lines, style=None, conf_dicts=None, filename="x.vhd"):
    """returns (oFile, oConfig, cla); raises ClassifyError if rejected"""
    c, cla = get_config(style, conf_dicts)
    f = VF.vhdlFile(list(lines), cla, filename, None, c)
    f.set_indent_map(c.dIndent)
    return f, c, cla


def make_rules(f, c):
    rl = rule_list.rule_list(f, c.severity_list)
    rl.configure(c)
    return rl


def model_text(f):
    return "".join(o.get_value() for o in f.lAllObjects)


def emitted_lines(f):
    return f.get_lines()[1:]


def violations_of(rl):
    """multiset (sorted list) of (rule, line, solution) currently held by the rules"""
    out = []
    for r in rl.rules:
        for v in r.violations:
            out.append((r.unique_id, v.get_line_number(), v.get_solution()))
    out.sort(key=lambda t: (t[0], t[1] if t[1] is not None else -1, str(t[2])))
    return out


def innermost_vsg_frame(exc):
    tb = traceback.extract_tb(exc.__traceback__)
    fr = [x for x in tb if (os.sep + "vsg" + os.sep) in x.filename and "/harness/" not in x.filename]
    if not fr:
        return ("?", "?", 0)
    x = fr[-1]
    return (os.path.relpath(x.filename, REPO), x.name, x.lineno)


def run_cli(argv, stdin_text=None, cwd=None):
    """Run vsg.__main__.main() in-process. Returns (exit_code, stdout, stderr, exception_or_None)."""
    old_argv = sys.argv
    sys.argv = ["vsg"] + list(argv)
    out = io.StringIO()
    err = io.StringIO()
    code = None
    exc = None
    old_in = sys.stdin
    old_cwd = os.getcwd()
    if stdin_text is not None:
        sys.stdin = io.StringIO(stdin_text)
    try:
        if cwd:
            os.chdir(cwd)
        with contextlib.redirect_stdout(out), contextlib.redirect_stderr(err):
            try:
                vsg_main.main()
            except SystemExit as e:
                code = e.code
            except BaseException as e:  # noqa: B902 - we report it, never swallow it
                if type(e).__name__ == "CaseTimeout" or isinstance(e, KeyboardInterrupt):
                    raise
                exc = e
    finally:
        sys.argv = old_argv
        sys.stdin = old_in
        os.chdir(old_cwd)
    if code is True:
        code = 1
    if code is False or code is None:
        code = 0
    return code, out.getvalue(), err.getvalue(), exc
