"""Code-atom comparison for C01: exact alignment search modulo a rule's documented redundant-element edits."""
import functools
import json
import os
import sys

from harness import lexer

sys.setrecursionlimit(max(sys.getrecursionlimit(), 200000))

VERIF = os.path.dirname(os.path.dirname(os.path.abspath(__file__)))

COND_START = {"if", "elsif", "while", "until", "when"}
COND_END = {"then", "loop", "generate", ";", "else"}
STMT_START_PREV = {";", "begin", "is", "then", "else", "generate", "loop", "=>", "block", ")"}
END_KW = {
    "?", "architecture", "entity", "package", "body", "process", "function", "procedure", "component", "block", "generate", "context",
    "configuration", "record", "protected", "case", "if", "loop", "for", "units", "postponed", "view",
}
OBJ_KW = {"signal", "constant", "variable", "file"}


def _is_ident(t):
    return bool(t) and (t[0].isalpha() or t[0] == "\\")


def _match_paren(seq, i):
    d = 0
    for j in range(i, len(seq)):
        if seq[j] == "(":
            d += 1
        elif seq[j] == ")":
            d -= 1
            if d == 0:
                return j
    return None


def _skips(seq, i, names):
    """(number of atoms, class) that may be skipped at seq[i] as a documented redundant element"""
    t = seq[i]
    prev = seq[i - 1] if i > 0 else ";"
    if t == "is":
        yield 1, "is"
    if t in END_KW or t in names:
        j = i - 1
        while j >= 0 and seq[j] != "end" and (seq[j] in END_KW or seq[j] in names):
            j -= 1
        if j >= 0 and seq[j] == "end":
            yield 1, ("endkw" if t in END_KW else "endname")
    if t == "component" and prev == ":":
        yield 1, "component"
    if i + 1 < len(seq) and seq[i + 1] == ":" and prev in STMT_START_PREV and _is_ident(t) and t not in END_KW:
        yield 2, "label"
    if t == "(" and prev in COND_START:
        j = _match_paren(seq, i)
        if j is not None and j + 1 < len(seq) and seq[j + 1] in COND_END:
            yield 1, "paren"
    if t == ")" and i + 1 < len(seq) and seq[i + 1] in COND_END:
        yield 1, "paren"


def expand_multi_identifier_declarations(seq):
    """class (f): 'signal a, b : T := d;' -> 'signal a : T := d; signal b : T := d;' (also interface elements)"""
    out = []
    i = 0
    n = len(seq)
    while i < n:
        # identifier list: id (, id)+ :
        if _is_ident(seq[i]) and i + 1 < n and seq[i + 1] == ",":
            j = i
            ids = []
            ok = True
            while True:
                if j < n and _is_ident(seq[j]):
                    ids.append(seq[j])
                    j += 1
                else:
                    ok = False
                    break
                if j < n and seq[j] == ",":
                    j += 1
                    continue
                break
            prev = out[-1] if out else ";"
            if ok and j < n and seq[j] == ":" and len(ids) > 1 and (prev in OBJ_KW or prev in ("(", ";", "shared")):
                # body up to the terminating ';' at depth 0 or the ')' closing the interface list
                k = j + 1
                d = 0
                while k < n:
                    if seq[k] == "(":
                        d += 1
                    elif seq[k] == ")":
                        if d == 0:
                            break
                        d -= 1
                    elif seq[k] == ";" and d == 0:
                        break
                    k += 1
                body = seq[j:k]
                prefix = []
                if prev in OBJ_KW:
                    prefix = [prev]
                    if len(out) >= 2 and out[-2] == "shared":
                        prefix = ["shared", prev]
                for m, ident in enumerate(ids):
                    if m > 0:
                        out.append(";")
                        out.extend(prefix)
                    out.append(ident)
                    out.extend(body)
                i = k
                continue
        out.append(seq[i])
        i += 1
    return out


def aligned(a, b, allow):
    """True iff a can be turned into b by inserting/removing only elements of the classes in `allow`"""
    if a == b:
        return True
    if "split" in allow:
        a = expand_multi_identifier_declarations(a)
        b = expand_multi_identifier_declarations(b)
        if a == b:
            return True
    allow = set(allow) - {"split"}
    if not allow:
        return False
    names = frozenset(x for x in a if _is_ident(x)) | frozenset(x for x in b if _is_ident(x))
    n, m = len(a), len(b)
    p = 0
    while p < n and p < m and a[p] == b[p]:
        p += 1
    s = 0
    while s < n - p and s < m - p and a[n - 1 - s] == b[m - 1 - s]:
        s += 1
    lo = max(0, p - 12)
    a2 = a[lo : n - s + 12 if s > 12 else n]
    b2 = b[lo : m - s + 12 if s > 12 else m]
    la, lb = len(a2), len(b2)
    if abs(la - lb) > 400 or la * lb > 4_000_000:
        return False

    @functools.lru_cache(maxsize=None)
    def go(i, j):
        while i < la and j < lb and a2[i] == b2[j]:
            # fast path: advance greedily only when no skip is possible on either side
            if any(c in allow for _, c in _skips(b2, j, names)) or any(c in allow for _, c in _skips(a2, i, names)):
                break
            i += 1
            j += 1
        if i == la and j == lb:
            return True
        if i < la and j < lb and a2[i] == b2[j] and go(i + 1, j + 1):
            return True
        if j < lb:
            for k, c in _skips(b2, j, names):
                if c in allow and go(i, j + k):
                    return True
        if i < la:
            for k, c in _skips(a2, i, names):
                if c in allow and go(i + k, j):
                    return True
        return False

    try:
        return go(0, 0)
    except RecursionError:
        return False


_ALLOW = None


def allowlist():
    global _ALLOW
    if _ALLOW is None:
        _ALLOW = json.load(open(os.path.join(VERIF, "tables", "structural_allowlist.json")))["rules"]
    return _ALLOW


def first_difference(a, b, ctx=3):
    i = 0
    while i < len(a) and i < len(b) and a[i] == b[i]:
        i += 1
    return {"at": i, "before": a[max(0, i - ctx) : i + ctx + 2], "after": b[max(0, i - ctx) : i + ctx + 2]}


def classify_c01(rule_id, before_atoms, after_atoms):
    """before/after: lists of lexer.Atom (code atoms only). returns None if fine else (kind, detail)"""
    a = [lexer.norm(x) for x in before_atoms]
    b = [lexer.norm(x) for x in after_atoms]
    if a == b:
        return None
    allow = allowlist().get(rule_id, [])
    if allow and aligned(a, b, allow):
        return None
    if [x.lower() for x in a] == [x.lower() for x in b]:
        return ("literal_recased", first_difference(a, b))
    return (failure_mode(a, b) + ("_by_allow_listed_rule" if allow else ""), first_difference(a, b))


def failure_mode(a, b):
    """coarse, stable description of how the code-atom sequence was damaged"""
    import collections

    ca, cb = collections.Counter(a), collections.Counter(b)
    if ca == cb:
        return "atoms_reordered"
    i = 0
    while i < len(a) and i < len(b) and a[i] == b[i]:
        i += 1
    if i + 1 < len(a) and i < len(b) and a[i] + a[i + 1] == b[i]:
        return "atoms_fused"
    if not (cb - ca):
        return "atoms_lost"
    if not (ca - cb):
        return "atoms_invented"
    return "atoms_replaced"
