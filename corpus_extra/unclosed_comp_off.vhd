
library ieee;
  use ieee.std_logic_1164.all;

entity STATE_A is
  port (
    clk : in    std_logic
  );
end entity STATE_A;

architecture rtl of STATE_A is

  signal   s : std_logic;

begin

  s <=  clk;

end architecture rtl;

--vhdl_comp_off
  this text is ignored (by the tool;
