
-- page one -- still the same line
entity STATE_D is
end entity STATE_D;

-- vertical tab  and more
architecture rtl of STATE_D is
begin
  a <=  b; -- unit sep 
end architecture rtl;
