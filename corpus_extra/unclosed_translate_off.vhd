
entity STATE_B is
end entity STATE_B;

architecture rtl of STATE_B is

begin

  -- synthesis translate_off
  a <=  b;

end architecture rtl;
