
entity STATE_C is
end entity STATE_C;

-- vsg_off
architecture RTL of STATE_C is
begin
  a <=  b;
end architecture RTL;
