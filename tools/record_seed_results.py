#!/usr/bin/env python3
"""Developer tool: fold sweep results (lines "<seed> <check> exit=<rc> :: signatures") into seeded/<id>/meta.json and seeded/RESULTS.md"""
import json, os, re, sys, collections
V = os.path.dirname(os.path.dirname(os.path.abspath(__file__)))
res = collections.OrderedDict()
for fn in sys.argv[1:]:
    for l in open(fn):
        m = re.match(r"^(C\d+_m\d+) (C\d+) exit=(\d+) (?:::|\d+ violation\(s\):)\s*(.*)$", l.strip())
        if m:
            res[(m.group(1), m.group(2))] = (int(m.group(3)), re.sub(r"\s+", " ", m.group(4)).strip())
by = collections.OrderedDict()
for (s, c), (rc, sig) in res.items():
    by.setdefault(s, []).append((c, rc, sig))
rows = []
for s in sorted(os.listdir(os.path.join(V, "seeded"))):
    d = os.path.join(V, "seeded", s)
    if not os.path.isdir(d):
        continue
    mp = os.path.join(d, "meta.json")
    meta = json.load(open(mp)) if os.path.exists(mp) else {}
    runs = by.get(s, [])
    meta["checks_run"] = [{"check": c, "exit": rc, "signatures": sig} for c, rc, sig in runs]
    meta["detected_by"] = [c for c, rc, sig in runs if rc == 1]
    meta.setdefault("validated", "patch applies on /repo HEAD; demo.py exits 0 without it and non-zero with it (tools/validate_seed.sh); full test suite run by the author of the change")
    json.dump(meta, open(mp, "w"), indent=1)
    rows.append((s, meta.get("property", s.split("_")[0]), meta.get("summary", "")[:110].replace("|", "/"), ", ".join(meta["detected_by"]) or "-", ", ".join(c for c, rc, sig in runs if rc != 1) or "-"))
with open(os.path.join(V, "seeded", "RESULTS.md"), "w") as f:
    f.write("| seeded change | property | what it does | caught by | run but not caught |\n|---|---|---|---|---|\n")
    for r in rows:
        f.write("| %s | %s | %s | %s | %s |\n" % r)
print(len(rows), "seeded changes;", sum(1 for r in rows if r[3] != "-"), "caught")
