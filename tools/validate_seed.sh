#!/bin/sh
# usage: validate_seed.sh <dir with patch.diff demo.py>  -- checks in a scratch worktree (/tmp/wt/val) of /repo HEAD:
# patch applies, demo passes without it and fails with it. (The full test suite was run by the author of the change and again by us for kept ones.)
D=$1; W=/tmp/wt/val
cd $W || exit 2
git checkout -q -- . ; git clean -fdq
git -C $W checkout -q --detach $(git -C /repo rev-parse HEAD) 2>/dev/null
cp $D/demo.py $W/demo.py; PYTHONPATH=$W timeout 600 /venv/bin/python $W/demo.py >/tmp/val_clean.log 2>&1; c=$?
if ! git apply --check $D/patch.diff 2>/tmp/val_apply.log; then echo "$D: PATCH DOES NOT APPLY on HEAD: $(head -2 /tmp/val_apply.log)"; exit 1; fi
git apply $D/patch.diff
cp $D/demo.py $W/demo.py; PYTHONPATH=$W timeout 600 /venv/bin/python $W/demo.py >/tmp/val_patched.log 2>&1; p=$?
git checkout -q -- . ; git clean -fdq
echo "$D: demo clean=$c patched=$p"
