#!/bin/sh
# Developer sweep: run <check> against a seeded change in a scratch worktree (VERIF_REPO), in parallel-safe fashion.
# usage: seedsweep.sh <seeded dir> <scale> <check id>...
S=$(realpath $1); SC=$2; shift 2
W=/tmp/wt/sw_$(basename $S)
git -C /repo worktree add -q --detach $W HEAD 2>/dev/null || exit 2
git -C $W apply $S/patch.diff || { echo "apply failed $S"; git -C /repo worktree remove --force $W; exit 2; }
mkdir -p /tmp/sw_evidence
cd /verif
for id in "$@"; do
  VERIF_EVIDENCE_DIR=/tmp/sw_evidence VERIF_REPO=$W VERIF_SCALE=$SC timeout 3600 ./check $id --no-shrink > /tmp/sw_$(basename $S)_$id.log 2>&1; rc=$?
  echo "$(basename $S) $id exit=$rc :: $(grep -A1 '^VIOLATION' /tmp/sw_$(basename $S)_$id.log | grep signature | head -2 | tr '\n' ' ') $(grep -E 'HARNESS ERROR' /tmp/sw_$(basename $S)_$id.log | head -1)"
done
git -C /repo worktree remove --force $W
