#!/usr/bin/env python3
"""writes KNOWN_FINDINGS.md: the committed known-findings file in the line format of the brief (generated from known_findings.jsonl)"""
import json, os
V = os.path.dirname(os.path.dirname(os.path.abspath(__file__)))
rows = [json.loads(l) for l in open(os.path.join(V, "known_findings.jsonl")) if l.strip()]
with open(os.path.join(V, "KNOWN_FINDINGS.md"), "w") as f:
    f.write("Generated from known_findings.jsonl (the file the checks read; never written at run time). One line per finding.\n\n")
    f.write("## repaired in /repo (a fixed entry suppresses nothing: its witness is replayed first in every run and a reproduction is a VIOLATION)\n\n")
    for d in rows:
        if d["status"] == "fixed":
            f.write("- " + d["text"] + "  [signature `%s`, witness `%s`]\n" % (d["signature"], d["witness"]))
    f.write("\n## known findings (genuine defects of the pinned tree that are not small; each is identified by call-site signature + witness input)\n\n")
    for d in sorted((x for x in rows if x["status"] != "fixed"), key=lambda x: (x["property"], x["signature"])):
        f.write("- known: property=%s %s  [witness `%s`] %s\n" % (d["property"], d["signature"], d["witness"], (d.get("summary") or "")[:160].replace("\n", " ")))
print("ok")
