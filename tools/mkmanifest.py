#!/usr/bin/env python3
"""Regenerates MANIFEST.json from tools/manifest_src.json (claimed checks) + properties.jsonl."""
import json, os, sys
V = os.path.dirname(os.path.dirname(os.path.abspath(__file__)))
src = json.load(open(os.path.join(V, "tools", "manifest_src.json")))
props = [json.loads(l) for l in open(os.path.join(V, "properties.jsonl"))]
checks = []
na = []
for p in props:
    i = p["id"]
    c = src["checks"].get(i)
    if not c:
        na.append({"property_id": i, "reason": src["not_applicable"].get(i, "check not built yet (work in progress)")})
        continue
    checks.append({
        "property_id": i,
        "quick_cmd": "./check %s --tier quick" % i,
        "thorough_cmd": "./check %s --tier thorough" % i,
        "evidence_file": "evidence/%s.json" % i,
        "replay_cmd_template": "./check %s --replay {path}" % i,
        "engine": c.get("engine", "harness"),
        "level_claimed": {"category": c["level"], "text": c["text"], "design_ref": c.get("design_ref", "DESIGN.md §5 " + i)},
        "level_note": c["note"],
        "technique": c["technique"],
    })
m = {
    "version": 1,
    "setup_cmd": "./setup.sh",
    "hooks": src["hooks"],
    "engines": src["engines"],
    "checks": checks,
    "notes": src["notes"],
    "not_applicable": na,
}
json.dump(m, open(os.path.join(V, "MANIFEST.json"), "w"), indent=1)
try:
    sys.path.insert(0, os.path.join(V, ".deps"))
    import jsonschema
    jsonschema.validate(m, json.load(open("/root/.vp/MANIFEST.schema.json")))
    print("MANIFEST.json valid;", len(checks), "checks,", len(na), "not claimed")
except ImportError:
    print("written (jsonschema unavailable)")
