#!/bin/sh
# usage: seedrun.sh <seeded dir> <scale> <check id>...   applies the change to /repo, runs the listed checks, reverts /repo.
S=$1; SC=$2; shift 2
cd /verif || exit 2
if [ -n "$(git -C /repo status --porcelain --untracked-files=no)" ]; then echo "repo dirty"; exit 2; fi
git -C /repo apply $(realpath $S)/patch.diff || { echo "apply failed"; exit 2; }
for id in "$@"; do
  cp evidence/$id.json /tmp/seedrun_evidence_$id.json 2>/dev/null   # evidence of the unchanged tree must survive a run against a seeded change
  VERIF_SCALE=$SC timeout 3000 ./check $id --no-shrink > /tmp/seedrun_$id.log 2>&1; rc=$?
  cp /tmp/seedrun_evidence_$id.json evidence/$id.json 2>/dev/null
  echo "$(basename $S) $id exit=$rc $(grep -c '^VIOLATION' /tmp/seedrun_$id.log) violation(s): $(grep -A1 '^VIOLATION' /tmp/seedrun_$id.log | grep signature | head -3 | tr '\n' ' ')"
done
git -C /repo checkout -- .
