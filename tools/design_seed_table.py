#!/usr/bin/env python3
"""puts seeded/RESULTS.md into DESIGN.md §13 (between the markers)"""
import os, re
V = os.path.dirname(os.path.dirname(os.path.abspath(__file__)))
d = open(os.path.join(V, "DESIGN.md")).read()
t = open(os.path.join(V, "seeded", "RESULTS.md")).read().strip()
block = "<!-- seeded-table-begin -->\n" + t + "\n<!-- seeded-table-end -->"
if "SEEDED_TABLE_PLACEHOLDER" in d:
    d = d.replace("SEEDED_TABLE_PLACEHOLDER", block)
else:
    d = re.sub(r"<!-- seeded-table-begin -->.*?<!-- seeded-table-end -->", lambda m: block, d, flags=re.S)
open(os.path.join(V, "DESIGN.md"), "w").write(d)
