#!/usr/bin/env python3
"""Developer tool (never run by a check): turn a triage dump (VERIF_TRIAGE_OUT of `check <ID> --triage`) into
known_findings.jsonl entries + witness files, after human review.  usage: triage2known.py dump.jsonl [--only substr] [--summary text]"""
import json, os, sys, hashlib
V = os.path.dirname(os.path.dirname(os.path.abspath(__file__)))
dump = sys.argv[1]
only = None
summary = None
if "--only" in sys.argv:
    only = sys.argv[sys.argv.index("--only") + 1]
if "--summary" in sys.argv:
    summary = sys.argv[sys.argv.index("--summary") + 1]
kf = os.path.join(V, "known_findings.jsonl")
have = set()
if os.path.exists(kf):
    for l in open(kf):
        l = l.strip()
        if l and not l.startswith("#"):
            d = json.loads(l)
            have.add((d["property"], d["signature"]))
n = 0
with open(kf, "a") as out:
    for l in open(dump):
        d = json.loads(l)
        if "prop" in d["sig"]:
            d["property"] = d["sig"].pop("prop")
            d["signature"] = "|".join("%s=%s" % (k, d["sig"][k]) for k in sorted(d["sig"]))
        if only and only not in d["signature"] and only != d["property"]:
            continue
        if (d["property"], d["signature"]) in have:
            continue
        wdir = os.path.join(V, "witnesses", d["property"])
        os.makedirs(wdir, exist_ok=True)
        wn = hashlib.sha1(d["signature"].encode()).hexdigest()[:12] + ".json"
        json.dump({"property": d["property"], "signature": d["signature"], "sig": d["sig"], "detail": d.get("detail"), "case": d["case"]}, open(os.path.join(wdir, wn), "w"), indent=1)
        e = {"property": d["property"], "signature": d["signature"], "status": "known", "witness": "witnesses/%s/%s" % (d["property"], wn),
             "summary": summary or json.dumps(d.get("detail"), default=str)[:200]}
        out.write(json.dumps(e) + "\n")
        n += 1
print("added", n)
