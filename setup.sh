#!/bin/sh
# Offline setup: third-party pieces of the harness go to /verif/.deps (nothing is fetched).
cd "$(dirname "$0")" || exit 2
WH=/opt/veriftools/wheels
/venv/bin/python -c "import hypothesis" 2>/dev/null || /venv/bin/pip install --no-index --find-links $WH hypothesis >/dev/null 2>&1
mkdir -p .deps
/venv/bin/python -c "import sys; sys.path.insert(0,'.deps'); import jsonschema" 2>/dev/null || \
  /venv/bin/pip install --no-index --find-links $WH --target .deps jsonschema >/dev/null 2>&1
/venv/bin/python -c "import sys; sys.path.insert(0,'.deps'); import atheris" 2>/dev/null || \
  /venv/bin/pip install --no-index --find-links $WH --target .deps atheris >/dev/null 2>&1
/venv/bin/python -c "import sys; sys.path.insert(0,'.deps'); import hypothesis, jsonschema; print('setup ok: hypothesis', hypothesis.__version__)"
